#define VMOD_NAME "vmod"
#define VMOD_MAGIC 0x564d4f44u
#include "vmod_impl.h"
