// Verification-only BLOC module ("vmod" / "vmod2"): an observer of object lifetimes and method calls.
// Every createObject / destroyObject / executeMethod appends one line to the file named by $VMOD_LOG:
//   C <module> <id> <ctor> <args>      D <module> <id>      DD <module> <id> (second destroy, tombstone mode)
//   M <module> <id> <method> <args> [STALE] [FOREIGN]
// In tombstone mode ($VMOD_TOMBSTONE=1) destroyed objects are kept so that a stale or double use is *recorded*;
// otherwise they are really freed, so that ASan sees use-after-free / double free by itself.
#include <blocc/plugin.h>
#include <blocc/value.h>
#include <blocc/exception_runtime.h>
#include <cstdio>
#include <cstdlib>
#include <cstring>
#include <string>
#include <atomic>
#include <fcntl.h>
#include <unistd.h>

#ifndef VMOD_NAME
#error VMOD_NAME
#endif

namespace vmodns
{
using namespace bloc;

struct Obj { unsigned magic; long id; int alive; long tag; std::string label; };

static std::atomic<long> g_serial(0);

static void logline(const std::string& s)
{
  const char * p = getenv("VMOD_LOG");
  if (!p) return;
  int fd = open(p, O_WRONLY | O_APPEND | O_CREAT, 0600);
  if (fd < 0) return;
  std::string l = s + "\n";
  (void)!write(fd, l.data(), l.size());
  close(fd);
}

static bool tombstone() { const char * p = getenv("VMOD_TOMBSTONE"); return p && *p == '1'; }

static std::string hex(const std::string& s)
{
  static const char * d = "0123456789abcdef"; std::string o;
  if (s.empty()) return "-";
  for (unsigned char c : s) { o.push_back(d[c >> 4]); o.push_back(d[c & 15]); }
  return o;
}

static std::string dumpv(Value& v)
{
  if (v.isNull()) return "null";
  if (v.type().level() > 0) return "table";
  switch (v.type().major())
  {
  case Type::INTEGER: return "i:" + std::to_string((long long)*v.integer());
  case Type::BOOLEAN: return *v.boolean() ? "b:1" : "b:0";
  case Type::NUMERIC: { unsigned long long u; double d = *v.numeric(); memcpy(&u, &d, 8); char b[24]; snprintf(b, sizeof b, "n:%016llx", u); return b; }
  case Type::LITERAL: return "s:" + hex(*v.literal());
  case Type::TABCHAR: return "x:" + hex(std::string(v.tabchar()->data(), v.tabchar()->size()));
  case Type::COMPLEX:
  {
    Obj * o = static_cast<Obj*>(v.complex()->instance());
    if (!o) return "o:null";
    return "o:" + std::to_string(o->id) + (o->magic == VMOD_MAGIC ? "" : ":foreign") + (o->alive ? "" : ":dead");
  }
  default: return "?";
  }
}

static PLUGIN_TYPE ctor_1_args[] = { { "I", 0 } };
static PLUGIN_TYPE ctor_2_args[] = { { "I", 0 }, { "L", 0 } };
static PLUGIN_TYPE ctor_3_args[] = { { "O", 0 } };
static PLUGIN_CTOR ctors[] = {
  { 0, 0, nullptr, "default" },
  { 1, 1, ctor_1_args, "tagged" },
  { 2, 2, ctor_2_args, "tagged and labelled" },
  { 3, 1, ctor_3_args, "copy of another object (a new object)" },
};

enum Method { Id = 0, Tag, Ping, EchoI, EchoS, EchoX, EchoN, EchoB, Args3, Other, Fail, SetTag };

static PLUGIN_ARG i_args[] = { { PLUGIN_IN, { "I", 0 } } };
static PLUGIN_ARG s_args[] = { { PLUGIN_IN, { "L", 0 } } };
static PLUGIN_ARG x_args[] = { { PLUGIN_IN, { "X", 0 } } };
static PLUGIN_ARG n_args[] = { { PLUGIN_IN, { "N", 0 } } };
static PLUGIN_ARG b_args[] = { { PLUGIN_IN, { "B", 0 } } };
static PLUGIN_ARG o_args[] = { { PLUGIN_IN, { "O", 0 } } };
static PLUGIN_ARG a3_args[] = { { PLUGIN_IN, { "I", 0 } }, { PLUGIN_IN, { "L", 0 } }, { PLUGIN_IN, { "N", 0 } } };

static PLUGIN_METHOD methods[] = {
  { Id,     "id",     { "I", 0 }, 0, nullptr, "serial number of the object" },
  { Tag,    "tag",    { "I", 0 }, 0, nullptr, "tag given at construction" },
  { Ping,   "ping",   { "I", 0 }, 0, nullptr, "liveness probe: returns the serial number" },
  { EchoI,  "echoi",  { "I", 0 }, 1, i_args, "returns the integer" },
  { EchoS,  "echos",  { "L", 0 }, 1, s_args, "returns the string" },
  { EchoX,  "echox",  { "X", 0 }, 1, x_args, "returns the bytes" },
  { EchoN,  "echon",  { "N", 0 }, 1, n_args, "returns the decimal" },
  { EchoB,  "echob",  { "B", 0 }, 1, b_args, "returns the boolean" },
  { Args3,  "args3",  { "L", 0 }, 3, a3_args, "dump of the three arguments" },
  { Other,  "other",  { "I", 0 }, 1, o_args, "serial number of another object of this module" },
  { Fail,   "fail",   { "I", 0 }, 0, nullptr, "raises a runtime error" },
  { SetTag, "settag", { "O", 0 }, 1, i_args, "changes the tag, returns the object itself" },
};

class VPlugin : public plugin::PluginBase
{
public:
  void declareInterface(PLUGIN_INTERFACE * interface) override
  {
    interface->name = VMOD_NAME;
    interface->method_count = sizeof(methods) / sizeof(PLUGIN_METHOD);
    interface->methods = methods;
    interface->ctors_count = sizeof(ctors) / sizeof(PLUGIN_CTOR);
    interface->ctors = ctors;
  }

  void * createObject(int ctor_id, Context& ctx, const std::vector<Expression*>& args) override
  {
    Obj * o = new Obj; o->magic = VMOD_MAGIC; o->id = ++g_serial; o->alive = 1; o->tag = 0;
    std::string a;
    try
    {
      for (Expression * e : args) { Value& v = e->value(ctx); a += " " + dumpv(v); if (v.type() == Type::INTEGER && !v.isNull() && e == args[0]) o->tag = *v.integer(); }
    }
    catch (...) { delete o; throw; }
    if (o->tag == 666) { delete o; throw RuntimeError(EXC_RT_OTHER_S, "constructor refused"); }
    logline(std::string("C ") + VMOD_NAME + " " + std::to_string(o->id) + " " + std::to_string(ctor_id) + a);
    return o;
  }

  void destroyObject(void * object) override
  {
    Obj * o = static_cast<Obj*>(object);
    if (!o) { logline(std::string("D ") + VMOD_NAME + " null"); return; }
    if (tombstone())
    {
      if (!o->alive) { logline(std::string("DD ") + VMOD_NAME + " " + std::to_string(o->id)); return; }
      if (o->magic != VMOD_MAGIC) { logline(std::string("D ") + VMOD_NAME + " " + std::to_string(o->id) + " FOREIGN"); return; }
      o->alive = 0;
      logline(std::string("D ") + VMOD_NAME + " " + std::to_string(o->id));
      return;
    }
    logline(std::string("D ") + VMOD_NAME + " " + std::to_string(o->id));
    o->alive = 0;
    delete o;
  }

  Value * executeMethod(Complex& object_this, int method_id, Context& ctx, const std::vector<Expression*>& args) override
  {
    Obj * o = static_cast<Obj*>(object_this.instance());
    std::string a;
    std::vector<Value*> vals;
    for (Expression * e : args) { Value& v = e->value(ctx); vals.push_back(&v); a += " " + dumpv(v); }
    std::string line = std::string("M ") + VMOD_NAME + " " + (o ? std::to_string(o->id) : std::string("null")) + " " + methods[method_id].name + "/" + std::to_string(method_id) + a;
    if (o && !o->alive) line += " STALE";
    if (o && o->magic != VMOD_MAGIC) line += " FOREIGN";
    logline(line);
    if (!o) throw RuntimeError(EXC_RT_OTHER_S, "null instance");
    switch (method_id)
    {
    case Id: case Ping: return new Value(Integer(o->id));
    case Tag: return new Value(Integer(o->tag));
    case EchoI: return vals[0]->isNull() ? new Value(Value::type_integer) : new Value(Integer(*vals[0]->integer()));
    case EchoS: return vals[0]->isNull() ? new Value(Value::type_literal) : new Value(new Literal(*vals[0]->literal()));
    case EchoX: return vals[0]->isNull() ? new Value(Value::type_tabchar) : new Value(new TabChar(*vals[0]->tabchar()));
    case EchoN: return vals[0]->isNull() ? new Value(Value::type_numeric) : new Value(Numeric(*vals[0]->numeric()));
    case EchoB: return vals[0]->isNull() ? new Value(Value::type_boolean) : new Value(Bool(*vals[0]->boolean()));
    case Args3: return new Value(new Literal(a));
    case Other:
    {
      if (vals[0]->isNull()) return new Value(Value::type_integer);
      Obj * x = static_cast<Obj*>(vals[0]->complex()->instance());
      return new Value(Integer(x ? x->id : -1));
    }
    case Fail: throw RuntimeError(EXC_RT_OTHER_S, "method failed on purpose");
    case SetTag: if (!vals[0]->isNull()) o->tag = *vals[0]->integer(); return new Value(new Complex(object_this));
    }
    return nullptr;
  }
};

}

namespace bloc { namespace plugin { typedef vmodns::VPlugin VPluginT; } }
PLUGINCREATOR(VPluginT)
