#define VMOD_NAME "vmod2"
#define VMOD_MAGIC 0x564d4f32u
#include "vmod_impl.h"
