"""Differential core shared by C06/C07/C08: run a G_model program in the real interpreter and in the
reference interpreter, compare marker traces, outcomes and post-run invariants."""
import re
from vlib import *
import model_lang as ml

FATAL_NAMES = {"INDEX_RANGE": "INDEX_RANGE", "RECURSION_LIMIT": "RECURSION_LIMIT", "NO_RETURN_VALUE": "NO_RETURN_VALUE"}


def markers(out_bytes):
    text = out_bytes.decode("latin-1")
    lines = text.split("\n")[:-1]        # complete lines only
    return [l for l in lines if l.startswith("@@")]


def impl_outcome(run_reply, E):
    """-> ('ok',None) | ('returned', valuestr) | ('error', NAME) , interrupted?, output bytes, steps"""
    head, pos, kw = rfields(run_reply)
    out = unhx(kw.get("out", "-"))
    intr = kw.get("intr") == "1"
    steps = int(kw.get("steps", "0"))
    if head == "ok":
        rv = kw.get("retv", "none")
        if rv != "none":
            return ("returned", rv), intr, out, steps
        return ("ok", None), intr, out, steps
    if head == "rerr":
        no = int(pos[0]); msg = unhx(pos[1]).decode("latin-1")
        name = None
        for k, v in E.items():
            if v == no and not k.startswith("P_"):
                name = k
        if no == E["USER"]:
            name = msg.strip().upper()
        return ("error", name or ("errno%d" % no)), intr, out, steps
    return ("bad", run_reply[:80]), intr, out, steps


def model_value_str(v):
    if v is None: return None
    if v is True: return "b:1"
    if v is False: return "b:0"
    if isinstance(v, int): return "i:%d" % v
    if isinstance(v, str): return "s:" + v.encode("latin-1").hex()
    return "?"


def compare(model_it, model_oc, impl_oc, impl_markers):
    """returns None or (class, description)"""
    mo = model_it.out
    if impl_markers != mo:
        # first difference
        n = 0
        while n < len(mo) and n < len(impl_markers) and mo[n] == impl_markers[n]:
            n += 1
        a = mo[n] if n < len(mo) else "<end>"; b = impl_markers[n] if n < len(impl_markers) else "<end>"
        return ("trace", "marker trace differs at #%d: model %r, interpreter %r (model %d lines, interpreter %d)" % (n, a, b, len(mo), len(impl_markers)))
    if model_oc == ("returned", None) and impl_oc[0] == "ok":
        return None       # `return;` without a value ends the program: nothing is handed to the host
    if model_oc[0] != impl_oc[0]:
        return ("outcome", "model outcome %r, interpreter %r" % (model_oc, impl_oc))
    if model_oc[0] == "error" and model_oc[1] != impl_oc[1]:
        return ("outcome", "model error %s, interpreter error %s" % (model_oc[1], impl_oc[1]))
    if model_oc[0] == "returned":
        mv = model_value_str(model_oc[1])
        iv = impl_oc[1]
        if mv is None:
            if not iv.startswith("Z"): return ("outcome", "model returned null, interpreter %s" % iv)
        elif mv != iv:
            return ("outcome", "model returned %s, interpreter %s" % (mv, iv))
    return None


def residue(dump_reply, allow_ret=False):
    """post-run invariants on the context dump: no control state of the interrupted region survives"""
    d = parse_dump(dump_reply)
    kw = d["kw"]
    bad = []
    if kw.get("depth") != "0": bad.append("control stack depth %s" % kw.get("depth"))
    if kw.get("lvl") != "0": bad.append("exec level %s" % kw.get("lvl"))
    if kw.get("brk") != "0": bad.append("pending break")
    if kw.get("cont") != "0": bad.append("pending continue")
    if kw.get("ret") != "0" and not allow_ret: bad.append("pending return")
    for name, s in d["syms"].items():
        if s["flags"] != "-" and not name.startswith("$"):
            bad.append("symbol %s keeps flags %s" % (name, s["flags"]))
    return bad, d


def model_env_check(model_it, d):
    """final variables of the model vs dump (ints, bools, strings, int tables)"""
    bad = []
    env = getattr(model_it, "env", {})
    for k, v in env.items():
        s = d["syms"].get(k.upper())
        if s is None:
            continue
        val = s["value"]
        if v is None:
            if not val.startswith("Z"): bad.append("%s: model null, interpreter %s" % (k, val[:40]))
        elif isinstance(v, bool):
            if val != ("b:1" if v else "b:0"): bad.append("%s: model %s, interpreter %s" % (k, v, val[:40]))
        elif isinstance(v, int):
            if val != "i:%d" % v: bad.append("%s: model %d, interpreter %s" % (k, v, val[:40]))
        elif isinstance(v, str):
            if val != "s:" + v.encode("latin-1").hex(): bad.append("%s: model %r, interpreter %s" % (k, v, val[:40]))
        elif isinstance(v, list):
            exp = "ti1[" + ",".join("Zi0" if e is None else "i:%d" % e for e in v) + "]"
            if val != exp: bad.append("%s: model %s, interpreter %s" % (k, exp[:60], val[:60]))
    return bad
