"""Differential core shared by C06/C07/C08: run a G_model program in the real interpreter and in the
reference interpreter, compare marker traces, outcomes and post-run invariants."""
import re
from vlib import *
import model_lang as ml

FATAL_NAMES = {"INDEX_RANGE": "INDEX_RANGE", "RECURSION_LIMIT": "RECURSION_LIMIT", "NO_RETURN_VALUE": "NO_RETURN_VALUE"}


def markers(out_bytes):
    text = out_bytes.decode("latin-1")
    lines = text.split("\n")[:-1]        # complete lines only
    return [l for l in lines if l.startswith("@@")]


def impl_outcome(run_reply, E):
    """-> ('ok',None) | ('returned', valuestr) | ('error', NAME) , interrupted?, output bytes, steps"""
    head, pos, kw = rfields(run_reply)
    out = unhx(kw.get("out", "-"))
    # an output larger than the capture limit (1 MiB) was cut by the harness: such a run cannot be compared (treated like an interrupted one)
    intr = kw.get("intr") == "1" or kw.get("trunc") == "1"
    steps = int(kw.get("steps", "0"))
    if head == "ok":
        rv = kw.get("retv", kw.get("returned", "none"))
        if rv != "none":
            return ("returned", rv), intr, out, steps
        return ("ok", None), intr, out, steps
    if head == "rerr":
        no = int(pos[0]); msg = unhx(pos[1]).decode("latin-1")
        name = None
        for k, v in E.items():
            if v == no and not k.startswith("P_"):
                name = k
        if no == E["USER"]:
            name = msg.strip().upper()
        return ("error", name or ("errno%d" % no)), intr, out, steps
    return ("bad", run_reply[:80]), intr, out, steps


def model_value_str(v):
    if v is None: return None
    if v is True: return "b:1"
    if v is False: return "b:0"
    if isinstance(v, int): return "i:%d" % v
    if isinstance(v, str): return "s:" + v.encode("latin-1").hex()
    return "?"


def compare(model_it, model_oc, impl_oc, impl_markers):
    """returns None or (class, description)"""
    mo = model_it.out
    if impl_markers != mo:
        # first difference
        n = 0
        while n < len(mo) and n < len(impl_markers) and mo[n] == impl_markers[n]:
            n += 1
        a = mo[n] if n < len(mo) else "<end>"; b = impl_markers[n] if n < len(impl_markers) else "<end>"
        return ("trace", "marker trace differs at #%d: model %r, interpreter %r (model %d lines, interpreter %d)" % (n, a, b, len(mo), len(impl_markers)))
    if model_oc == ("returned", None) and impl_oc[0] == "ok":
        return None       # `return;` without a value ends the program: nothing is handed to the host
    if model_oc[0] != impl_oc[0]:
        return ("outcome", "model outcome %r, interpreter %r" % (model_oc, impl_oc))
    if model_oc[0] == "error" and model_oc[1] == "ANY":
        if impl_oc[1] in ("DIVIDE_BY_ZERO", "OUT_OF_RANGE") or impl_oc[1] is None:
            return ("outcome", "model: non-catchable run-time type error, interpreter error %s" % impl_oc[1])
        return None
    if model_oc[0] == "error" and model_oc[1] != impl_oc[1]:
        return ("outcome", "model error %s, interpreter error %s" % (model_oc[1], impl_oc[1]))
    if model_oc[0] == "returned":
        mv = model_value_str(model_oc[1])
        iv = impl_oc[1]
        if mv is None:
            if not iv.startswith("Z"): return ("outcome", "model returned null, interpreter %s" % iv)
        elif mv != iv:
            return ("outcome", "model returned %s, interpreter %s" % (mv, iv))
    return None


def residue(dump_reply, allow_ret=False):
    """post-run invariants on the context dump: no control state of the interrupted region survives"""
    d = parse_dump(dump_reply)
    kw = d["kw"]
    bad = []
    if kw.get("depth") != "0": bad.append("control stack depth %s" % kw.get("depth"))
    if kw.get("lvl") != "0": bad.append("exec level %s" % kw.get("lvl"))
    if kw.get("brk") != "0": bad.append("pending break")
    if kw.get("cont") != "0": bad.append("pending continue")
    if kw.get("ret") != "0" and not allow_ret: bad.append("pending return")
    for name, s in d["syms"].items():
        if s["flags"] != "-" and not name.startswith("$"):
            bad.append("symbol %s keeps flags %s" % (name, s["flags"]))
    return bad, d


def model_env_check(model_it, d):
    """final variables of the model vs dump (ints, bools, strings, int tables)"""
    bad = []
    env = getattr(model_it, "env", {})
    for k, v in env.items():
        s = d["syms"].get(k.upper())
        if s is None:
            continue
        val = s["value"]
        if v is None or v is ml.NOTHING:
            if not val.startswith("Z"): bad.append("%s: model null, interpreter %s" % (k, val[:40]))
        elif isinstance(v, bool):
            if val != ("b:1" if v else "b:0"): bad.append("%s: model %s, interpreter %s" % (k, v, val[:40]))
        elif isinstance(v, int):
            if val != "i:%d" % v: bad.append("%s: model %d, interpreter %s" % (k, v, val[:40]))
        elif isinstance(v, str):
            if val != "s:" + v.encode("latin-1").hex(): bad.append("%s: model %r, interpreter %s" % (k, v, val[:40]))
        elif isinstance(v, list):
            exp = "ti1[" + ",".join("Zi0" if e is None else "i:%d" % e for e in v) + "]"
            if val != exp: bad.append("%s: model %s, interpreter %s" % (k, exp[:60], val[:60]))
    return bad


GLOBALS = ["A", "B", "C", "D", "P", "Q", "S", "U", "T", "W"]

PROBE = 'i = "txt"; j = 1.5; k = true; e = "it"; f = tab(1, "x"); t.concat(1); w.concat(2); t.put(0, 9); for i in 1 to 2 loop zz = i; end loop; forall e in t loop zy = e; end loop; print "@@P:" t.count() " " w.count() " " zz;'


class DiffRunner:
    """runs G_model programs through a route and applies all oracles; violations are recorded in self.res"""
    def __init__(self, prop, desc):
        self.prop = prop; self.desc = desc; self.res = new_result(); self.probe = Probe("asan", timeout=40)
        self.E = errnos(self.probe)
        import random as _r
        self.rnd = _r.Random("%s-%s-%s-%s" % (desc["seed"], prop, desc["kind"], desc["k"]))
        self.route = "cpp"
        self.check_live = False

    def viol(self, cls, what, ops, text):
        add_violation(self.res, "%s|%s" % (self.prop, cls), what, {"ops": ops, "program": text})

    def ops_for(self, text):
        if self.route == "istmt":
            return ["new A 0", "istmt A %s 20000" % hx(text), "dump A", "resetstop A", "istmt A %s 2000" % hx(PROBE), "dump A nofn"]
        if self.route == "capi":
            return ["new A 0", "cparse A P %s" % hx(text), "crun A P 20000", "dump A", "resetstop A", "cparse A Q %s" % hx(PROBE), "crun A Q 2000", "dump A nofn"]
        return ["new A 0", "parse A P %s" % hx(text), "run A P 20000", "dump A", "resetstop A", "parse A Q %s" % hx(PROBE), "run A Q 2000", "dump A nofn"]

    def run_program(self, funcs, prog, label, loopy=True):
        b = ml.bounded(funcs, prog)
        if b is None:
            bump(self.res, "generated_unbounded_discarded"); return
        it, oc = b
        text = ml.render(funcs, prog, self.rnd)
        ops = self.ops_for(text)
        r = self.probe.case(ops)
        self.res["evaluations"] += 1
        if r.timeout:
            self.res["inconclusive"] += 1; bump(self.res, "timeouts"); return
        if r.crashed:
            bump(self.res, "worker_crashes")
            add_violation(self.res, self.prop + "|crash:%s" % r.sig, "%s program crashed: %s" % (label, r.sig), {"ops": ops, "program": text, "report": r.report[-3000:]}); return
        rep = r.replies
        if self.route == "istmt":
            # normalise the statement-at-a-time layout to [new, parse, run, dump, resetstop, parse, run, dump]
            rep = [rep[0], "perr" + rep[1][4:] if rep[1].startswith("perr") else "ok", rep[1], rep[2], rep[3],
                   "perr" + rep[4][4:] if rep[4].startswith("perr") else "ok", rep[4], rep[5]]
        if not rep[1].startswith("ok"):
            self.viol("generated-program-rejected", "parser rejected a generated program: %s" % rep[1][:160], ops, text); return
        ioc, intr, out, steps = impl_outcome(rep[2], self.E)
        if intr:
            self.viol("non-termination", "%s program still running after 20000 statements; the reference interpreter finishes it in %d statements" % (label, it.steps), ops, text); return
        im = markers(out)
        why = compare(it, oc, ioc, im)
        if why:
            self.viol(why[0], "%s: %s" % (label, why[1]), ops, text); return
        bad, d = residue(rep[3], allow_ret=(oc[0] == "returned"))
        if bad:
            self.viol("residue|" + bad[0].split()[0], "%s: after the run (%s): %s" % (label, oc[0], "; ".join(bad)), ops, text); return
        # conservation of contexts: root + one parse context per declared function + cached runtime contexts, nothing lost or leaked
        live = int(d["kw"].get("live", "0")); nfn = int(d["kw"].get("nfn", "0")); cached = int(d["kw"].get("cached", "0"))
        if live != 1 + nfn + cached:
            self.viol("context-conservation", "%s: %d live contexts after the run (%s), expected 1 + %d functions + %d cached" % (label, live, oc[0], nfn, cached), ops, text); return
        bump(self.res, "context_conservation_checks")
        if oc[0] == "returned" and it.ret_forvars:
            for v, val in it.ret_forvars.items():
                sy = d["syms"].get(v.upper())
                if sy is not None and isinstance(val, int) and sy["value"] != "i:%d" % val:
                    self.viol("return-in-loop|control-variable", "%s: `return` was executed inside `for %s` at %s = %d; after the program returned the variable is %s" % (label, v, v, val, sy["value"][:40]), ops, text); return
            bump(self.res, "returns_inside_for_loops_checked")
        envbad = [x for x in model_env_check(it, d) if x.split(":")[0].upper() in GLOBALS]
        if envbad:
            self.viol("final-variables", "%s: %s" % (label, "; ".join(envbad[:3])), ops, text); return
        # probe: former iterators accept another type, formerly iterated tables accept concat, new loops open
        if not rep[5].startswith("ok") or not rep[6].startswith("ok"):
            self.viol("probe-rejected", "%s: probe program refused after the run (%s): %s / %s" % (label, oc[0], rep[5][:100], rep[6][:100]), ops, text); return
        pm = markers(unhx(rfields(rep[6])[2].get("out", "-")))
        exp_t = len(it.env.get("t") or []) + 1; exp_w = len(it.env.get("w") or []) + 1
        if pm != ["@@P:%d %d 2" % (exp_t, exp_w)]:
            self.viol("probe-output", "%s: probe printed %r, expected table sizes %d %d" % (label, pm, exp_t, exp_w), ops, text); return
        if it.steps > 12 or not loopy:
            self.res["nontrivial"].add(case_hash(text))
        bump(self.res, "outcome_" + oc[0])
        bump(self.res, "markers_compared", len(im))
        if len(self.res["samples"]) < 3 and len(im) > 3:
            self.res["samples"].append({"program": text[:600], "markers": im[:8], "outcome": list(map(str, oc)), "statements_model": it.steps, "statements_interpreter": steps})

