"""Harvests BLOC source texts from the repository's *working tree* at run time (tests, manuals, msgdb help)
and provides token-level mutation.  Nothing here is a fixed corpus: a changed repository changes it."""
import os, re, glob, random

REPO = os.environ.get("VERIF_REPO", "/repo")

FORBIDDEN = re.compile(r"\b(input|readln|read|import|include|getenv|trace)\b", re.I)   # stdin readers, module loading, env


def _c_unescape(s):
    out = []; i = 0
    while i < len(s):
        c = s[i]
        if c == "\\" and i + 1 < len(s):
            n = s[i + 1]
            m = {"n": "\n", "t": "\t", "r": "\r", "\\": "\\", '"': '"', "'": "'", "0": "\0"}.get(n)
            if m is not None:
                out.append(m); i += 2; continue
            if n == "x":
                j = i + 2; h = ""
                while j < len(s) and s[j] in "0123456789abcdefABCDEF" and len(h) < 2:
                    h += s[j]; j += 1
                if h:
                    out.append(chr(int(h, 16))); i = j; continue
            out.append(n); i += 2; continue
        out.append(c); i += 1
    return "".join(out)


NONDET = re.compile(r"\b(random|getsys|getenv)\b", re.I)    # output is not a function of the program text


def harvest(allow_forbidden=False, deterministic=False):
    texts = []
    # 1. string arguments of ctx.reset("...") in tests
    for f in sorted(glob.glob(os.path.join(REPO, "tests", "*.cpp")) + glob.glob(os.path.join(REPO, "tests", "*.c"))):
        try:
            src = open(f, encoding="utf-8", errors="replace").read()
        except OSError:
            continue
        for m in re.finditer(r'reset\s*\(\s*((?:"(?:[^"\\]|\\.)*"\s*)+)\)', src):
            parts = re.findall(r'"((?:[^"\\]|\\.)*)"', m.group(1))
            texts.append(_c_unescape("".join(parts)) + ";")
        for m in re.finditer(r'bloc_parse_(?:executable|expression)\s*\(\s*\w+\s*,\s*((?:"(?:[^"\\]|\\.)*"\s*)+)', src):
            parts = re.findall(r'"((?:[^"\\]|\\.)*)"', m.group(1))
            texts.append(_c_unescape("".join(parts)))
    # 2. fenced code in README / docs
    for f in [os.path.join(REPO, "README.md")] + sorted(glob.glob(os.path.join(REPO, "docs", "*.md"))):
        try:
            src = open(f, encoding="utf-8", errors="replace").read()
        except OSError:
            continue
        for m in re.finditer(r"```[a-z]*\n(.*?)```", src, re.S):
            t = m.group(1)
            if len(t) < 4000:
                texts.append(t)
    # 3. msgdb help: lines "code   >>> comment"
    for f in sorted(glob.glob(os.path.join(REPO, "msgdb", "lang_en", "**", "*.txt"), recursive=True)):
        try:
            src = open(f, encoding="utf-8", errors="replace").read()
        except OSError:
            continue
        for line in src.splitlines():
            if ">>>" in line:
                code = line.split(">>>")[0].strip()
                if code and not code.startswith("$$"):
                    if not code.endswith(";"):
                        code += ";"
                    texts.append(code)
    # 4. example scripts shipped in the repository, if any
    for f in sorted(glob.glob(os.path.join(REPO, "**", "*.bloc"), recursive=True))[:50]:
        if "_build" in f:
            continue
        try:
            t = open(f, encoding="utf-8", errors="replace").read()
            if len(t) < 8000:
                texts.append(t)
        except OSError:
            pass
    seen = set(); out = []
    for t in texts:
        if t in seen:
            continue
        seen.add(t)
        if not allow_forbidden and FORBIDDEN.search(t):
            continue
        if deterministic and NONDET.search(t):
            continue
        out.append(t)
    return out


TOKEN_RE = re.compile(r'"(?:[^"\\]|\\.|"")*"|/\*.*?\*/|//[^\n]*|#[^\n]*|\d+\.\d*(?:[eE][+-]?\d+)?|\.\d+|0[xX][0-9a-fA-F]+|\d+|[A-Za-z_$][A-Za-z0-9_]*|==|!=|<=|>=|<>|<<|>>|\*\*|&&|\|\||:=|\s+|.', re.S)

KEYWORDS = ["nop", "trace", "let", "function", "if", "then", "else", "elsif", "for", "while", "loop", "in", "to", "return", "begin", "break", "continue",
            "end", "end if", "end loop", "print", "put", "do", "exception", "when", "raise", "asc", "desc", "is", "forall", "step",
            "and", "or", "xor", "not", "power", "matches", "null", "true", "false", "others", "divide_by_zero", "out_of_range", "table", "tuple",
            "integer", "decimal", "string", "boolean", "bytes", "undefined", "object", "complex"]
OPERATORS = ["+", "-", "*", "/", "%", "**", "&", "|", "^", "~", "<<", ">>", "==", "!=", "<", "<=", ">", ">=", "&&", "||", "!", "(", ")", ",", ";", ".", "@", ":", "=", '"', "/*", "*/", "//", "#"]


def tokens(text):
    return [m.group(0) for m in TOKEN_RE.finditer(text)]


def mutate(text, rnd, builtin_names=()):
    toks = tokens(text)
    if not toks:
        return text
    k = rnd.random()
    nz = [i for i, t in enumerate(toks) if not t.isspace()]
    if not nz:
        return text
    i = rnd.choice(nz)
    if k < 0.18:   # truncate at a token boundary
        return "".join(toks[:i])
    if k < 0.33:   # delete a token
        return "".join(toks[:i] + toks[i + 1:])
    if k < 0.45:   # duplicate
        return "".join(toks[:i] + [toks[i], " ", toks[i]] + toks[i + 1:])
    if k < 0.57:   # swap with another
        j = rnd.choice(nz); toks[i], toks[j] = toks[j], toks[i]
        return "".join(toks)
    if k < 0.72:   # replace by a keyword / operator / builtin
        pool = KEYWORDS + OPERATORS + list(builtin_names)
        toks[i] = rnd.choice(pool)
        return "".join(toks)
    if k < 0.82:   # replace a number by a boundary number
        nums = [j for j in nz if toks[j][0].isdigit()]
        if nums:
            j = rnd.choice(nums)
            toks[j] = rnd.choice(["0", "1", "255", "256", "9223372036854775807", "9223372036854775808", "18446744073709551615", "99999999999999999999",
                                  "4294967296", "2147483648", "1e308", "1e309", "1e-320", "0.0", "0x7fffffffffffffff", "0xffffffffffffffff", "0x1ffffffffffffffff", ".5", "5."])
            return "".join(toks)
    if k < 0.9:    # unbalance
        toks.insert(i, rnd.choice(["(", ")", '"', "/*", "*/", "begin", "end", "end loop;", "end if;", "then", "loop", "@", "."]))
        return "".join(toks)
    # splice with itself
    j = rnd.choice(nz)
    return "".join(toks[:i] + toks[j:])
