"""C16 — an untrusted context can never obtain an object of a module it was not granted.

Complete enumeration by execution, one fresh process per history (module registry and grant list are
process-wide): {trusted, untrusted} x grant histories x module load states x constructor sites x spellings x
import forms.  Observer: the verification module vmod logs every createObject; the decision function
allowed = trusted or granted-at-compile-time is compared with the parse outcome, the create log and the
objects found in the context dump."""
import os, random, tempfile, shutil
from vlib import *

PROPERTY = "C16"
LEVEL = "exploration"
EXHAUSTIVE = True
RULE = ("one evaluation = one history executed in a fresh process: context trust, grant/clear calls, which context loaded the module, the text that "
        "tries to construct an object (site x spelling) or to import by path / include; non-trivial = the text was judged (refused when not "
        "allowed: no create event and no object value; accepted and object created when allowed); distinct = distinct histories; the whole "
        "product space listed in DESIGN section C16 is enumerated on every run")
ASSUMPTIONS = ["vmod (verification module built from /verif/vmod against the working tree's plugin.h) logs every createObject", "a typed null declared as x:vmod is not an object",
               "csv is used as the real-module counterpart", "gcc ASan/UBSan runtimes"]

SITES = {
    "top": "a = {M}({T});",
    "top-default": "a = {M}();",
    "top-label": 'a = {M}({T}, "lbl");',
    "function-body": "function mk() return {m} is begin return {M}({T}); end; a = mk();",
    "function-body-uncalled": "function mk2() return integer is begin zz = {M}({T}); return 1; end; a = 1;",
    "loop": "for i in 1 to 1 loop a = {M}({T}); end loop;",
    "handler": "begin raise oops; exception when oops then a = {M}({T}); end;",
    "nested-tab": "a = tab(1, {M}({T}));",
    "nested-tup": "a = tup({M}({T}), 1);",
    "copy-ctor": "a = {M}({M}({T}));",
    "method-chain": "a = {M}({T}).id();",
    "typed-param": "function use(p:{m}) return integer is begin return 1; end; a = use({M}({T}));",
    "if-dead-branch": "if false then a = {M}({T}); end if;",
}
NON_OBJECT_SITES = {
    "typed-decl": "x:{m}; a = isnull(x);",
    "typed-param-decl": "function use2(p:{m}) return integer is begin return 2; end; a = use2(null);",
    "return-decl": "function r2() return {m} is begin return null; end; a = r2();",
}
GRANTS = ["never", "granted", "granted-used-cleared", "granted-then-cleared", "granted-after-refusal", "other-module", "prefix", "longer", "empty", "uppercase", "regrant-after-clear"]
LOADS = ["import-here", "loaded-by-trusted", "not-loaded"]


class Sh:
    def __init__(self, desc):
        self.desc = desc; self.res = new_result()
        self.rnd = random.Random("%s-c16-%s" % (desc["seed"], desc["k"]))
        self.work = tempfile.mkdtemp(prefix="c16_")
        self.bdir = build("asan")

    def viol(self, cls, what, wit):
        add_violation(self.res, "C16|" + cls, what, wit)

    def history(self, trusted, grant, load, site, text, mod, tag, is_object_site=True, route="cpp"):
        """returns nothing; records violations"""
        log = os.path.join(self.work, "vmod.log")
        open(log, "w").close()
        P = "cparse" if route == "capi" else "parse"; R = "crun" if route == "capi" else "run"
        ops = []
        if load == "loaded-by-trusted":
            ops += ["new T 1", "parse T PT %s" % hx("import %s;" % mod), "run T PT 100"]
        # the trust flag is established in different ways: at creation, or by (repeated) calls of Context::trusted(bool)
        if trusted: est = self.rnd.choice([["new A 1"], ["new A 0", "trust A 1"], ["new A 1", "trust A 1"], ["new A 0", "trust A 0", "trust A 1"]])
        else: est = self.rnd.choice([["new A 0"], ["new A 0"], ["new A 0", "trust A 0"], ["new A 0", "trust A 0", "trust A 0"], ["new A 1", "trust A 0"], ["new A 0", "trust A 1", "trust A 0", "trust A 0"]])
        ops += est
        bump(self.res, "trust_established_by_%d_calls" % (len(est) - 1))
        granted = False
        name = mod
        def unban(n): return "unban %s" % hx(n) if n else "unban 2d"   # "-" stands for the empty string in the hex codec
        if grant == "granted": ops.append(unban(name)); granted = True
        elif grant == "granted-then-cleared": ops += [unban(name), "clearperm"]
        elif grant == "other-module": ops.append(unban("utf8" if mod != "utf8" else "file"))
        elif grant == "prefix": ops.append(unban(name[:-1]))
        elif grant == "longer": ops.append(unban(name + "x"))
        elif grant == "empty": ops.append("unban -")
        elif grant == "uppercase": ops.append(unban(name.upper()))
        elif grant == "regrant-after-clear": ops += [unban(name), "clearperm", unban(name)]; granted = True
        imp = ("import %s;\n" % mod) if load == "import-here" else ""
        full = imp + text
        first = len(ops)
        if grant == "granted-after-refusal":
            ops += ["%s A P0 %s" % (P, hx(full)), "require ok", "%s A P0 100" % R]
            ops.append("reset-skip")
            ops.append(unban(name)); granted = True
        if grant == "granted-used-cleared":
            # the grant is used by a first compile (and run), then revoked: the next compile must be refused again
            ops += [unban(name), "%s A P0 %s" % (P, hx(full)), "require ok", "%s A P0 100" % R, "reset-skip", "clearperm", "dump A nofn", "vmodmark"]
            self._baseline_idx = len(ops) - 2
        ops += ["%s A P %s" % (P, hx(full)), "require ok", "%s A P 1000" % R, "dump A nofn"]
        # a clone compiles and runs the same text with the grant state of the moment
        ops += ["reset-skip", "clone A B", "%s B Q %s" % (P, hx(full)), "require ok", "%s B Q 1000" % R, "dump B nofn"]
        probe = Probe("asan", modules=True, extra_env={"VMOD_LOG": log, "VMOD_TOMBSTONE": "1"}, timeout=60)
        r = probe.case(ops)
        probe.close()
        self.res["evaluations"] += 1
        wit = {"ops": ops, "text": full, "trusted": trusted, "grant": grant, "load": load, "site": site}
        desc = "%s context, grant=%s, load=%s, site=%s, module=%s, route=%s" % ("trusted" if trusted else "untrusted", grant, load, site, mod, route)
        if r.crashed:
            add_violation(self.res, "C16|crash:%s" % r.sig, "%s crashed: %s" % (desc, r.sig), dict(wit, report=r.report[-3000:])); return
        if r.timeout:
            self.res["inconclusive"] += 1; return
        loglines = open(log).read().splitlines()
        if "MARK" in loglines:
            loglines = loglines[loglines.index("MARK") + 1:]      # only the phase after the revocation is judged
        creates = [l for l in loglines if l.startswith("C ")]
        rep = r.replies
        allowed = trusted or granted
        module_known = load != "not-loaded"
        # locate the replies of the main compile and of the clone compile
        def find(start, pfx):
            for i in range(start, len(rep)):
                if rep[i].startswith("ok") or rep[i].startswith("perr"):
                    return i
            return None
        idx_main = len(ops) - 10; idx_clone = len(ops) - 4
        pm, pc = rep[idx_main], rep[idx_clone]
        dumps = [x for x in (rep[idx_main + 3], rep[idx_clone + 3]) if x.startswith("dump")]
        import re as _re
        known = set()
        if grant == "granted-used-cleared":
            known = set(_re.findall(r"o#\d+:[0-9a-f]{16}", rep[self._baseline_idx])) if rep[self._baseline_idx].startswith("dump") else set()
        objects = sum(1 for dm in dumps for o in _re.findall(r"o#\d+:[0-9a-f]{16}", dm) if o not in known)
        ncreate = len(creates) if mod.startswith("vmod") else None
        if not allowed:
            if (ncreate and ncreate > 0) or objects > 0:
                self.viol("object-obtained|%s|%s|%s" % (grant, load, site), "%s: an object was created (%s create events, %d object values): %s" % (desc, ncreate, objects, creates[:2]), wit); return
            if is_object_site and module_known and (pm.startswith("ok") or pc.startswith("ok")):
                # accepted at compile time but produced nothing (dead code): accepted texts must at least not create; note it
                bump(self.res, "untrusted_accepted_without_creation")
            if grant == "granted-after-refusal":
                pass
        else:
            if module_known and is_object_site and site.endswith(":lower") and site.split(":")[0] not in ("if-dead-branch", "function-body-uncalled"):
                if not pm.startswith("ok"):
                    self.viol("allowed-but-refused|%s|%s|%s" % (grant, load, site), "%s: refused although allowed: %s" % (desc, pm[:120]), wit); return
                if mod.startswith("vmod") and ncreate == 0:
                    self.viol("allowed-but-nothing-created|%s|%s|%s" % (grant, load, site), "%s: compiled but no object was created (%s)" % (desc, rep[idx_main + 2][:80]), wit); return
        if allowed and module_known and is_object_site and site.endswith(":lower") and site.split(":")[0] not in ("if-dead-branch", "function-body-uncalled"):
            # the clone (taken with its own descriptors) has the rights of its source
            if pm.startswith("ok") and not pc.startswith("ok"):
                self.viol("clone-refused|%s|%s|%s" % (grant, load, site), "%s: accepted in the context but refused in its clone: %s" % (desc, pc[:120]), wit); return
        if grant == "granted-after-refusal" and not trusted:
            # the first compile (before the grant) must have been refused
            p0 = rep[first]
            if module_known and is_object_site and p0.startswith("ok") and site not in ("if-dead-branch", "function-body-uncalled"):
                r0 = rep[first + 2]
                if not r0.startswith("skipped") and ncreate is not None:
                    pass
        self.res["nontrivial"].add(case_hash([trusted, grant, load, site, mod, route, text]))
        bump(self.res, "histories_allowed" if allowed else "histories_refused")
        if ncreate: bump(self.res, "create_events_observed", ncreate)
        if len(self.res["samples"]) < 2 or (len(self.res["samples"]) < 4 and allowed and ncreate):
            self.res["samples"].append({"history": desc, "compile": pm[:40], "create_events": ncreate, "objects_in_dump": objects})

    def imports(self):
        """import by path and include: always refused in an untrusted context, working in a trusted one"""
        lib = os.path.join(self.bdir, "modlib", "libbloc_vmod.so.2.9")
        inc = os.path.join(self.work, "inc.bloc")
        open(inc, "w").write("q = 41 + 1;\n")
        forms = [("import-path", 'import "%s"; a = vmod(1);' % lib), ("import-path-only", 'import "%s";' % lib), ("include", 'include "%s"; a = q;' % inc),
                 ("import-path-parenthesised", 'import ("%s"); a = vmod(1);' % lib), ("import-path-concatenated", 'import "%s" + "%s";' % (lib[:10], lib[10:])),
                 ("import-path-parenthesised-concat", 'import ("%s" + "%s");' % (lib[:-4], lib[-4:])), ("import-path-function-body", 'function fp() return integer is begin import ("%s"); return 1; end;' % lib),
                 ("include-parenthesised", 'include ("%s"); a = q;' % inc),
                 ("include-in-function", 'function fi() return integer is begin include "%s"; return 1; end;' % inc), ("import-path-in-loop", 'for i in 1 to 1 loop import "%s"; end loop;' % lib)]
        for trusted in (False, True):
            for grant in ("never", "granted"):
                for fname, text in forms:
                    for route in ("cpp", "capi"):
                        log = os.path.join(self.work, "vmod.log"); open(log, "w").close()
                        P = "cparse" if route == "capi" else "parse"; R = "crun" if route == "capi" else "run"
                        ops = ["new A %d" % (1 if trusted else 0)] + (["unban %s" % hx("vmod")] if grant == "granted" else []) + ["%s A P %s" % (P, hx(text)), "require ok", "%s A P 1000" % R, "dump A nofn"]
                        probe = Probe("asan", modules=True, extra_env={"VMOD_LOG": log, "VMOD_TOMBSTONE": "1"}, timeout=60)
                        r = probe.case(ops); probe.close()
                        self.res["evaluations"] += 1
                        wit = {"ops": ops, "text": text}
                        desc = "%s context, grant=%s, %s (%s)" % ("trusted" if trusted else "untrusted", grant, fname, route)
                        if r.crashed:
                            add_violation(self.res, "C16|crash:%s" % r.sig, "%s crashed: %s" % (desc, r.sig), dict(wit, report=r.report[-3000:])); continue
                        pr = r.replies[-4]
                        if not trusted:
                            if pr.startswith("ok"):
                                self.viol("path-or-include-accepted|%s" % fname, "%s: accepted in an untrusted context" % desc, wit); continue
                        else:
                            if not pr.startswith("ok") and "in-function" not in fname and "in-loop" not in fname and "function-body" not in fname:
                                self.viol("trusted-refused|%s" % fname, "%s: refused in a trusted context: %s" % (desc, pr[:100]), wit); continue
                        self.res["nontrivial"].add(case_hash(["imp", trusted, grant, fname, route]))

    def run(self):
        k, n = self.desc["k"], self.desc["n"]
        cases = []
        tag = 100
        for mod in ("vmod", "csv"):
            for trusted in (False, True):
                for grant in GRANTS:
                    if trusted and grant not in ("never", "granted-then-cleared"): continue
                    for load in LOADS:
                        for site, tmpl in list(SITES.items()) + list(NON_OBJECT_SITES.items()):
                            if mod == "csv" and site not in ("top-default", "function-body", "loop", "nested-tab", "typed-decl"): continue
                            for spell in ("lower", "upper", "mixed"):
                                if spell != "lower" and site not in ("top", "top-default", "function-body", "typed-decl"): continue
                                M = {"lower": mod, "upper": mod.upper(), "mixed": mod.capitalize()}[spell]
                                tag += 1
                                text = tmpl.replace("{M}", M).replace("{m}", mod).replace("{T}", str(tag))
                                if mod == "csv":
                                    text = text.replace("(%d)" % tag, "()").replace('(%d, "lbl")' % tag, "()")
                                route = "capi" if (tag % 3 == 0) else "cpp"
                                cases.append((trusted, grant, load, site + ":" + spell, text, mod, tag, site in SITES, route))
        mine = [c for i, c in enumerate(cases) if i % n == k]
        for c in mine:
            self.history(*c)
        if k == 0:
            self.imports()
        shutil.rmtree(self.work, ignore_errors=True)
        return self.res


def plan(tier, seed):
    return [{"k": k, "n": 16, "seed": seed, "tier": tier} for k in range(16)]


def run_shard(desc):
    return Sh(desc).run()


def replay(wit):
    print(wit["witness"].get("text", ""))
    p = Probe("asan", modules=True, extra_env={"VMOD_TOMBSTONE": "1"})
    r = p.case(wit["witness"]["ops"])
    for op, rep in zip(wit["witness"]["ops"], r.replies):
        print("  %s\n    -> %s" % (op[:160], rep[:200]))
    p.close()
    return 1 if r.crashed else 0
