"""C12 — saving a compiled program as text and loading it back preserves its behaviour.

Twin monitor: program P (source T0) is compiled; its text T1 (Executable::unparse) and S1 (the `save` rendering:
every statement's unparse + ";\n") are compiled in fresh contexts into P'; P and P' are executed in fresh equivalent
contexts and must agree on output, returned value, error and final variables; the text of P' must equal T1/S1."""
import random, re
from vlib import *
import model_lang as ml
import lang_diff as ld
import corpus

PROPERTY = "C12"
LEVEL = "exploration"
RULE = ("one evaluation = one source text that compiles, unparsed two ways, reloaded, re-unparsed and both programs executed; compared: acceptance "
        "of the saved text, fixed point of the text, output/outcome/returned value/final dump of original vs reloaded; non-trivial = the program "
        "compiled, executed at least one statement and printed or assigned something; distinct = hashes of source texts")
ASSUMPTIONS = ["the `save` command's rendering is reproduced by the harness exactly as apps/cli_parser.cpp does it (statement unparse + ';' + newline); the real bloc -i save/load is exercised in C19",
               "gcc ASan/UBSan runtimes"]

INT_OPS = ["+", "-", "*", "/", "%", "**", "power", "&", "|", "^", "<<", ">>"]
CMP_OPS = ["==", "!=", "<", "<=", ">", ">=", "<>"]
BOOL_OPS = ["and", "or", "xor", "&&", "||"]

LITERALS = ["0", "7", "9223372036854775807", "0xff", "0x7fffffffffffffff", "0x8000000000000000", "0xffffffffffffffff", "0X1F", "1.5", "0.1", "0.30000000000000004", "1e10", "1E-5", "2.5e+3", ".5", "5.",
            "0.1234567890123456", "0.12345678901234567", "123456789012345678.0", "1e308", "4.9e-324", "2.2250738585072014e-308", "1.7976931348623157e308", "100000000000000000000.0",
            '""', '"a"', '"with \\"quotes\\""', '"back\\\\slash"', '"tab\\there"', '"nl\\nx"', '"C:\\\\temp"', '"^\\\\d+\\\\.\\\\d*$"', '"it""s"', '"semi;colon"', '"#nocomment"', '"/* no */"', '"\\a\\b\\f\\r"',
            "true", "false", "null", "on", "off", "pi", "ee", "phi", "ii", "2 + 3 * ii", "int()", "num()", "str()", "bool()", "raw()", "tup()", "tab()", "raw(3, 65)", 'raw("abc")',
            'tup(1, "a", 2.5, true)', "tab(2, 1)", 'tab(1, tup(1, "a"))', "tab(2, tab(1, 0.5))"]


class Sh:
    def __init__(self, desc):
        self.desc = desc; self.res = new_result(); self.probe = Probe("asan", timeout=40)
        self.E = errnos(self.probe)
        self.rnd = random.Random("%s-c12-%s-%s" % (desc["seed"], desc["kind"], desc["k"]))

    def viol(self, cls, what, wit):
        add_violation(self.res, "C12|" + cls, what, wit)

    def roundtrip(self, text, label, cls=""):
        pre = "function idf(a) return undefined is begin return a; end;\n"
        # 1: compile in A, take both renderings
        ops = ["new A 0", "parse A P %s" % hx(text), "require ok", "unparse P", "save P", "run A P 20000", "resetstop A", "dump A"]
        r = self.probe.case(ops)
        self.res["evaluations"] += 1
        wit = {"ops": ops, "source": text}
        if r.timeout:
            self.res["inconclusive"] += 1; return
        if r.crashed:
            bump(self.res, "worker_crashes")
            add_violation(self.res, "C12|crash:%s" % r.sig, "%s: crash: %s" % (label, r.sig), dict(wit, report=r.report[-3000:])); return
        rep = r.replies
        if not rep[1].startswith("ok"):
            bump(self.res, "source_rejected"); return
        t1 = unhx(rfields(rep[3])[1][0]); s1 = unhx(rfields(rep[4])[1][0])
        o0 = ld.impl_outcome(rep[5], self.E)
        if o0[1]:
            self.res["inconclusive"] += 1; return
        d0 = parse_dump(rep[7])
        for kind, saved in (("unparse", t1), ("save", s1)):
            ops2 = ["new B 0", "parse B Q %s" % hx(saved), "require ok", "unparse Q" if kind == "unparse" else "save Q", "run B Q 20000", "resetstop B", "dump B"]
            r2 = self.probe.case(ops2)
            self.res["evaluations"] += 1
            wit2 = {"ops": ops2, "source": text, "saved": saved.decode("latin-1")}
            if r2.crashed:
                bump(self.res, "worker_crashes")
                add_violation(self.res, "C12|crash:%s" % r2.sig, "%s: crash on the saved text: %s" % (label, r2.sig), dict(wit2, report=r2.report[-3000:])); return
            if r2.timeout:
                self.res["inconclusive"] += 1; return
            rp = r2.replies
            if not rp[1].startswith("ok"):
                self.viol("saved-text-rejected|%s%s" % (kind, cls), "%s: the %s text is rejected (%s): source `%s` saved as `%s`" % (label, kind, rp[1][:120], text[:200], saved.decode("latin-1")[:200]), wit2); return
            t2 = unhx(rfields(rp[3])[1][0])
            if t2 != saved:
                a, b = saved.decode("latin-1"), t2.decode("latin-1")
                n = 0
                while n < min(len(a), len(b)) and a[n] == b[n]: n += 1
                self.viol("not-a-fixed-point|%s%s" % (kind, cls), "%s: text of the reloaded program differs at offset %d: `%s` vs `%s`" % (label, n, a[max(0, n - 30):n + 40], b[max(0, n - 30):n + 40]), wit2); return
            o1 = ld.impl_outcome(rp[4], self.E)
            if o1[1]:
                self.res["inconclusive"] += 1; return
            if (o0[0], o0[2]) != (o1[0], o1[2]):
                self.viol("behaviour|%s%s" % (kind, cls), "%s: original gives %s %r, reloaded (%s) gives %s %r; source `%s` saved `%s`" % (label, o0[0], o0[2][:80], kind, o1[0], o1[2][:80], text[:160], saved.decode("latin-1")[:160]), wit2); return
            d1 = parse_dump(rp[6])
            for name, sv in d0["syms"].items():
                s2 = d1["syms"].get(name)
                if s2 is None or re.sub(r"#\d+", "", s2["value"]) != re.sub(r"#\d+", "", sv["value"]):
                    self.viol("final-variables|%s%s" % (kind, cls), "%s: %s is %s after the original, %s after the reloaded program; source `%s`" % (label, name, sv["value"][:60], s2 and s2["value"][:60], text[:160]), wit2); return
        if o0[3] > 0:
            self.res["nontrivial"].add(case_hash(text))
        bump(self.res, "roundtrips_ok")
        if len(self.res["samples"]) < 3:
            self.res["samples"].append({"source": text[:200], "saved": t1.decode("latin-1")[:200], "outcome": str(o0[0])})

    def shapes(self):
        """every operator pair in both nestings, with and without source parentheses; literal forms"""
        k, n = self.desc["k"], self.desc["n"]
        cases = []
        groups = [(INT_OPS, "3", "2", "1"), (BOOL_OPS, "true", "false", "null")]
        for ops, a, b, c in groups:
            for o1 in ops:
                for o2 in ops:
                    for shape in ("(%s %s %s) %s %s", "%s %s (%s %s %s)", "%s %s %s %s %s"):
                        if shape.startswith("("): e = shape % (a, o1, b, o2, c)
                        elif shape.endswith(")"): e = shape % (a, o1, b, o2, c)
                        else: e = shape % (a, o1, b, o2, c)
                        cases.append(("x = %s; print x;" % e, "|ops"))
        for o1 in INT_OPS:
            for o2 in CMP_OPS:
                cases.append(("x = 5 %s 3 %s 2; print x;" % (o1, o2), "|ops")); cases.append(("x = 5 %s (3 %s 2); print x;" % (o2, o1), "|ops")); cases.append(("x = (7 %s 3) %s 2; print x;" % (o1, o2), "|ops"))
            for u in ("-", "~", "+"):
                cases.append(("x = %s 5 %s 3; print x;" % (u, o1), "|ops")); cases.append(("x = %s (5 %s 3); print x;" % (u, o1), "|ops")); cases.append(("x = 5 %s %s 3; print x;" % (o1, u), "|ops"))
                cases.append(("x = (%s 5) %s 3; print x;" % (u, o1), "|ops")); cases.append(("x = %s %s 5; print x;" % (u, u), "|ops"))
        for o2 in CMP_OPS:
            for o3 in BOOL_OPS:
                cases.append(("x = 1 %s 2 %s 3 %s 2; print x;" % (o2, o3, o2), "|ops")); cases.append(("x = not 1 %s 2 %s true; print x;" % (o2, o3), "|ops")); cases.append(("x = not (1 %s 2 %s true); print x;" % (o2, o3), "|ops"))
                cases.append(("x = ! true %s (1 %s 2); print x;" % (o3, o2), "|ops"))
        for m in ("(1 + 2).count()", '("ab" + "cd").count()', '("ab" + "cd").at(1)', "(tab(2, 1)).count()", "tab(2, 1).concat(3).count()", '(tup(1, "a"))@2', 'tup(1, "a")@1 + 2', "(2 + 3) @ 1",
                  '("x" + "y").concat("z")', "-(1 + 2)", "2 ** (3 - 1)", "(2 ** 3) ** 2", "2 ** 3 ** 2", "-2 ** 2", "(-2) ** 2", '"a" + ("b" + "c")', "(1 < 2) == (2 < 3)", "not (true and false)",
                  "tab(2, tab(2, 1)).at(1).at(0)", 'tab(1, tup(1, "a")).at(0)@2', "str(1 + 2) + str(3)", "substr(\"hello\", 1 + 1, 2)", "isnull(null) and not isnull(1)"):
            cases.append(("x = %s; print typeof(x);" % m, "|members"))
        for lit in LITERALS:
            cases.append(("x = %s; print typeof(x); y = x;" % lit, "|literal"))
            cases.append(("print typeof(%s) \" \" isnull(%s);" % (lit, lit), "|literal"))
            if lit[0].isdigit() or lit[0] == ".":
                cases.append(("x = %s; print x == %s; print x + 0; print 1 - %s;" % (lit, lit, lit), "|literal"))
        stm = ["a = 1, b = 2, c = a + b, print c;", "for i in 1 to 5 step 2 desc loop print i; end loop;", "for i in 5 to 1 asc loop print i; end loop; print \"done\";", "for i in 1 to 3 asc loop print i; end loop;",
               "t = tab(3, 1); forall e in t desc loop e = 2; end loop; forall e in t asc loop print e; end loop;", "x:integer; y:string; z:table; w:undefined; print isnull(x);", "let a = 5; print a;",
               "begin raise foo; exception when foo then print error@1; when others then print \"o\"; end;", "begin a = 1 / 0; exception when divide_by_zero then print 1; when out_of_range then print 2; end;",
               "function f(a:integer, b:string, c:table, d) return table is begin return tab(1, a); end; print f(1, \"x\", tab(1, 1), null).count();",
               "function g return integer is begin return 1; end; function g(a) return undefined is begin return a; end; print g() g(5);", "if true then print 1; elsif false then print 2; else print 3; end if;",
               "while false loop nop; end loop; print \"w\";", "do str(5); trace false; nop; put 1 \" \" 2; print;", "a = 5; if a > 3 then if a > 4 then print \"deep\"; end if; end if;", "return 5 + 1;", "return \"s\";", "return;",
               "t = tab(2, 1); t.put(0, 5), t.concat(6), print t.count();", "r = tup(1, \"a\"); r.set@1(5); print r@1;", "$x = 5; $x = $x + 1; print $x;", "print 1 /* comment */ + 2; // trailing\nprint 3; # hash\n",
               # parameters (untyped and typed) that the body re-assigns, also with a value of another type: the saved header declares what the source declared
               "function lb(x) return string is begin n = x * 2; x = \"#\" + str(n); return x; end; print lb(21); print lb(1.5);",
               "function lc(x, y:integer) return integer is begin x = tab(2, x); y = y + x.count(); x = y; return x; end; print lc(\"s\", 1) lc(2, 2);",
               "function ld(x:undefined) return undefined is begin if x == 1 then x = \"one\"; end if; return x; end; print ld(1); print ld(2); print ld(\"z\");",
               "function le(p) return boolean is begin q = p; p = isnull(q); return p; end; function lf(p) return integer is begin p = int(p) + 1; return p; end; print le(null) le(3); print lf(\"41\") lf(1.0);"]
        # every statement form as the head of a `,` chain (unparse must emit what follows), at top level, in a loop body and in a function
        heads = ["cnt:integer", "nm:string", "tb:table", "a = 1", "let q = 2", "nop", "trace false", "do str(1)", 'put "p"', "t = tab(1, 1)", "t.concat(2)", 'print "h"']
        tails = ['cnt = 40 + 2, print cnt', 'nm = "v", print nm', "a = 7, print a"]
        for h in heads:
            for tl in tails:
                if h.split(":")[0].split(" ")[0] in ("t.concat(2)",) : pre = "t = tab(1, 1); "
                else: pre = ""
                cases.append(("cnt = 0; nm = \"\"; a = 0; %s%s, %s;" % (pre, h, tl), "|chain"))
            cases.append(("cnt = 0; nm = \"\"; a = 0; t = tab(1, 1); for i in 1 to 2 loop %s, a = a + i, print a; end loop;" % h, "|chain"))
            cases.append(("function fc(z) return integer is begin %s, z = z + 1, return z; end; print fc(1);" % h.replace("cnt:", "lc:").replace("nm:", "ln:").replace("tb:", "lt:"), "|chain"))
        for t in stm:
            cases.append((t, "|statement"))
        for i, (t, c) in enumerate(cases):
            if i % n == k:
                self.roundtrip(t, "shape", c)
                if self.res["counters"].get("worker_crashes", 0) > CRASH_BUDGET: return

    def programs(self):
        r = self.rnd
        n = 250 if self.desc["tier"] == "quick" else 6000
        for _ in range(n):
            g = ml.Gen(r, r.choice(["loops", "errors", "functions"]))
            funcs, prog = g.program()
            if ml.bounded(funcs, prog) is None:      # e.g. exponential string growth: memory exhaustion is not the subject here
                bump(self.res, "generated_unbounded_discarded"); continue
            self.roundtrip(ml.render(funcs, prog, r), "generated", "|generated")
            if self.res["counters"].get("worker_crashes", 0) > CRASH_BUDGET: return
        base = corpus.harvest(deterministic=True)
        for j, t in enumerate(base):
            if re.search(r"\b(random|getsys|getenv)\b", t):
                continue      # output not a function of the program text
            if j % self.desc["n"] == self.desc["k"] and len(t) < 3000:
                self.roundtrip(t, "corpus", "|corpus")


def plan(tier, seed):
    sh = [{"kind": "shapes", "k": k, "n": 6, "seed": seed, "tier": tier} for k in range(6)]
    sh += [{"kind": "programs", "k": k, "n": 10, "seed": seed, "tier": tier} for k in range(10)]
    return sh


def run_shard(desc):
    s = Sh(desc)
    try:
        getattr(s, desc["kind"])()
    finally:
        s.probe.close()
    return s.res


def replay(wit):
    print(wit["witness"].get("source", "")); print("--- saved:"); print(wit["witness"].get("saved", ""))
    r = generic_replay(wit)
    return 1 if r.crashed else 0
