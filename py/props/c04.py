"""C04 — null obeys three-valued (Kleene) logic regardless of how the null was produced.

Complete enumeration by execution: {true,false,null} x provenance, squared, x every logical operator;
every relational operator over boolean/integer/decimal/string/bytes operands with every kind of null.
Each expression is evaluated (i) through eval twice (re-evaluation must agree), (ii) three times inside a
loop with a loop-dependent sibling operand on either side, (iii) as an if and as a while condition."""
import random
from vlib import *

PROPERTY = "C04"
LEVEL = "exploration"
EXHAUSTIVE = True
RULE = ("one evaluation = one (operator, lhs expression, rhs expression) triple run through 5 forms (eval x2, 3-iteration loop with a "
        "loop-dependent sibling on the right and on the left, if condition, while condition) and compared with the Kleene tables / "
        "'null if either operand is null'; non-trivial = accepted by the parser and at least one operand is a null or the operator is "
        "logical; distinct = distinct (operator, lhs text, rhs text, context mode) tuples; the space provenance^2 x values^2 x operators is "
        "enumerated completely")
ASSUMPTIONS = ["Kleene truth tables as stated in the manual (Logical Operators) and the property", "gcc ASan/UBSan runtimes",
               "the harness' dump of variables (public loadVariable) reflects what scripts see"]

PRELUDE = """
vt = true; vf = false; vn = bool(); un = null;
function ft() return boolean is begin return true; end;
function ff() return boolean is begin return false; end;
function fn() return undefined is begin return null; end;
function fnb() return boolean is begin return bool(); end;
tb = tab(1, true); tb.concat(false); tn = tab(1, bool());
rt = tup(true, false); rn = tup(bool(), 1);
vi = 5; vin = int(); vd = 2.5; vdn = num(); vs = "abc"; vsn = str(); vx = raw(2, 65); vxn = raw();
function fi() return integer is begin return 5; end;
function fni() return integer is begin return int(); end;
function fd() return decimal is begin return 2.5; end;
function fnd() return decimal is begin return num(); end;
function fs() return string is begin return "abc"; end;
function fns() return string is begin return str(); end;
function fx() return bytes is begin return raw(2, 65); end;
function fnx() return bytes is begin return raw(); end;
ti = tab(1, 5); tin = tab(1, int()); td = tab(1, 2.5); tdn = tab(1, num()); ts = tab(1, "abc"); tsn = tab(1, str());
ri = tup(5, 2.5, "abc"); rin = tup(int(), num(), str());
vr = false; vr:boolean; vq:boolean; vir = 7; vir:integer; vsr = "zz"; vsr:string;
tt = tab(2, 1); ttn = tab(); tt2 = tab(1, tab(1, 1));
"""

# (text, value, provenance)  value: True/False/None ; typed: whether a null carries the boolean type
BOOLS = [
    ("true", True, "const"), ("on", True, "const"), ("bool(1)", True, "ctor"), ("vt", True, "var"), ("ot", True, "opaque"), ("ft()", True, "func"), ("tb.at(0)", True, "elem"), ("rt@1", True, "item"),
    ("false", False, "const"), ("off", False, "const"), ("bool(0)", False, "ctor"), ("vf", False, "var"), ("of", False, "opaque"), ("ff()", False, "func"), ("tb.at(1)", False, "elem"), ("rt@2", False, "item"),
    ("null", None, "const-untyped"), ("bool()", None, "ctor-typed"), ("vn", None, "var-typed"), ("un", None, "var-untyped"), ("ou", None, "opaque-untyped"),
    ("oub", None, "opaque-typed"), ("fn()", None, "func-untyped"), ("fnb()", None, "func-typed"), ("tn.at(0)", None, "elem-typed"), ("rn@1", None, "item-typed"),
    ("vr", None, "var-typed-redeclared"), ("vq", None, "var-typed-declared"),
]

REL_OPERANDS = {
    "bool": {"vals": [("true", "const"), ("vf", "var"), ("ft()", "func"), ("tb.at(1)", "elem"), ("rt@1", "item"), ("ot", "opaque")],
             "nulls": [("bool()", "ctor-typed"), ("vn", "var-typed"), ("fnb()", "func-typed"), ("tn.at(0)", "elem-typed"), ("rn@1", "item-typed"), ("oub", "opaque-typed"), ("vr", "var-typed-redeclared")]},
    "int": {"vals": [("5", "const"), ("7", "const"), ("vi", "var"), ("fi()", "func"), ("ti.at(0)", "elem"), ("ri@1", "item")],
            "nulls": [("int()", "ctor-typed"), ("vin", "var-typed"), ("fni()", "func-typed"), ("tin.at(0)", "elem-typed"), ("rin@1", "item-typed"), ("vir", "var-typed-redeclared")]},
    "dec": {"vals": [("2.5", "const"), ("1e3", "const"), ("vd", "var"), ("fd()", "func"), ("td.at(0)", "elem"), ("ri@2", "item")],
            "nulls": [("num()", "ctor-typed"), ("vdn", "var-typed"), ("fnd()", "func-typed"), ("tdn.at(0)", "elem-typed"), ("rin@2", "item-typed")]},
    "str": {"vals": [('"abc"', "const"), ('""', "const"), ("vs", "var"), ("fs()", "func"), ("ts.at(0)", "elem"), ("ri@3", "item")],
            "nulls": [("str()", "ctor-typed"), ("vsn", "var-typed"), ("fns()", "func-typed"), ("tsn.at(0)", "elem-typed"), ("rin@3", "item-typed"), ("vsr", "var-typed-redeclared")]},
    "bytes": {"vals": [("raw(2, 65)", "ctor"), ("vx", "var"), ("fx()", "func")],
              "nulls": [("raw()", "ctor-typed"), ("vxn", "var-typed"), ("fnx()", "func-typed")]},
    "table": {"vals": [("tt", "var"), ("tab(2, 1)", "ctor"), ("tt2.at(0)", "elem"), ("tt2", "var-2dim")],
              "nulls": [("tab()", "ctor-typed"), ("ttn", "var-typed"), ("int()", "scalar-ctor-typed"), ("vn", "scalar-var-typed"), ("bool()", "scalar-ctor-typed")]},
}
UNTYPED_NULLS = [("null", "const-untyped"), ("un", "var-untyped"), ("fn()", "func-untyped"), ("ou", "opaque-untyped")]

SENTINELS = {"VT": "b:1", "VF": "b:0", "VN": "Zb0", "UN": "Zu0", "VR": "Zb0", "VQ": "Zb0", "VI": "i:5", "VIN": "Zi0", "VIR": "Zi0", "VD": "n:4004000000000000",
             "VDN": "Zn0", "VS": "s:616263", "VSN": "Zs0", "VSR": "Zs0", "OT": "b:1", "OF": "b:0", "OU": "Zu0", "OUB": "Zb0", "TT": "ti1[i:1,i:1]"}

LOGICAL = ["and", "&&", "or", "||", "xor"]
UNARY = ["not", "!"]
RELOPS = ["==", "!=", "<", "<=", ">", ">="]


def k_and(a, b):
    if a is False or b is False: return False
    if a is None or b is None: return None
    return True

def k_or(a, b):
    if a is True or b is True: return True
    if a is None or b is None: return None
    return False

def k_xor(a, b):
    if a is None or b is None: return None
    return a != b

def k_not(a):
    return None if a is None else (not a)

def kleene(op, a, b):
    if op in ("and", "&&"): return k_and(a, b)
    if op in ("or", "||"): return k_or(a, b)
    if op == "xor": return k_xor(a, b)
    raise ValueError(op)


def vclass(v, prov):
    if v is True: return "true"
    if v is False: return "false"
    return "typed-null" if "typed" in prov and "untyped" not in prov else "untyped-null"


def setup_ops():
    return ["new A 0", "parse A PRE %s" % hx(PRELUDE), "run A PRE 100000",
            "reg A 4f54 u0", "set A 4f54 b:1 opaque", "reg A 4f46 u0", "set A 4f46 b:0 opaque",
            "reg A 4f55 u0", "set A 4f55 Zu0 opaque", "reg A 4f5542 u0", "set A 4f5542 Zb0 opaque"]
    # OT, OF, OU, OUB registered opaque (declared type undefined) and holding true / false / untyped null / boolean null

NSETUP = 11


def obs(valstr):
    """serialised value -> True/False/None(null)/'other:<s>'"""
    if valstr.startswith("Z"): return None
    if valstr == "b:1": return True
    if valstr == "b:0": return False
    return "other:" + valstr


def show(v):
    return {True: "TRUE", False: "FALSE", None: "null"}.get(v, str(v))


class Sh:
    def __init__(self, desc):
        self.desc = desc; self.res = new_result(); self.probe = Probe("asan")
        self.shared = desc["mode"] == "shared"

    def viol(self, op, lcls, rcls, form, what, ops):
        sig = "C04|%s|lhs=%s,rhs=%s|%s" % (op, lcls, rcls, form)
        add_violation(self.res, sig, what, {"ops": ops})

    def unit_logical(self, op, X, Y):
        (xt, xv, xp), (yt, yv, yp) = X, Y
        expr = "%s %s %s" % (xt, op, yt)
        want = kleene(op, xv, yv)
        loopR = [kleene(op, xv, k_and(yv, i == 1)) for i in (1, 2, 3)]
        loopS = [kleene(op, k_and(xv, i == 1), yv) for i in (1, 2, 3)]
        prog = ("for i in 1 to 3 loop r = %s %s ((%s) and (i == 1)); s = ((%s) and (i == 1)) %s %s; "
                "if i == 1 then r1 = r; s1 = s; elsif i == 2 then r2 = r; s2 = s; else r3 = r; s3 = s; end if; end loop; "
                "qi = 0; if %s then qi = 1; else qi = 2; end if; qw = 0; while (%s) and qw < 2 loop qw = qw + 1; end loop;"
                % (xt, op, yt, xt, op, yt, expr, expr))
        return self._unit(op, expr, prog, want, loopR, loopS, vclass(xv, xp), vclass(yv, yp), "%s[%s] %s %s[%s]" % (xt, xp, op, yt, yp), True)

    def unit_unary(self, op, X):
        xt, xv, xp = X
        expr = "%s %s" % (op, xt)
        want = k_not(xv)
        loopR = [k_not(k_and(xv, i == 1)) for i in (1, 2, 3)]
        prog = ("for i in 1 to 3 loop r = %s ((%s) and (i == 1)); s = %s; "
                "if i == 1 then r1 = r; s1 = s; elsif i == 2 then r2 = r; s2 = s; else r3 = r; s3 = s; end if; end loop; "
                "qi = 0; if %s then qi = 1; else qi = 2; end if; qw = 0; while (%s) and qw < 2 loop qw = qw + 1; end loop;"
                % (op, xt, expr, expr, expr))
        return self._unit(op, expr, prog, want, loopR, [want] * 3, vclass(xv, xp), "-", "%s %s[%s]" % (op, xt, xp), True)

    def unit_rel(self, op, X, Y, xnull, ynull, typ):
        (xt, xp), (yt, yp) = X, Y
        expr = "%s %s %s" % (xt, op, yt)
        want = None if (xnull or ynull) else "nonnull"
        prog = ("for i in 1 to 3 loop r = %s; s = %s; "
                "if i == 1 then r1 = r; s1 = s; elsif i == 2 then r2 = r; s2 = s; else r3 = r; s3 = s; end if; end loop; "
                "qi = 0; if %s then qi = 1; else qi = 2; end if; qw = 0; while (%s) and qw < 2 loop qw = qw + 1; end loop;"
                % (expr, expr, expr, expr))
        lc = ("typed-null" if "untyped" not in xp else "untyped-null") if xnull else "value"
        rc = ("typed-null" if "untyped" not in yp else "untyped-null") if ynull else "value"
        return self._unit(op + ":" + typ, expr, prog, want, [want] * 3, [want] * 3, lc, rc, "%s[%s] %s %s[%s] (%s)" % (xt, xp, op, yt, yp, typ), xnull or ynull)

    def _unit(self, op, expr, prog, want, loopR, loopS, lcls, rcls, what, nontrivial):
        ops = ["pexpr A E %s" % hx(expr), "eval A E", "eval A E", "parse A P %s" % hx(prog), "run A P 10000", "dump A nofn"]
        pre = setup_ops()
        def ok(got, exp):
            if exp == "nonnull":
                return got is True or got is False
            return got == exp
        def check(rep, self=self):
            self.res["evaluations"] += 1
            full = pre + ops
            if not rep[0].startswith("ok"):
                # rejected at compile time: no evaluation takes place, nothing to assert
                bump(self.res, "rejected_at_compile_time"); return
            if nontrivial:
                self.res["nontrivial"].add(case_hash([op, expr, self.desc["mode"]]))
            for k in (1, 2):
                h, pos, kw = rfields(rep[k])
                if h != "val" and want == "nonnull":
                    # both operands non-null: outside the statement (e.g. ordering of tables is simply not defined)
                    bump(self.res, "nonnull_pair_runtime_errors"); return
                if h != "val":
                    self.viol(op, lcls, rcls, "eval", "%s: evaluation #%d failed: %s" % (what, k, rep[k][:100]), full); return
                g = obs(pos[0])
                if not ok(g, want):
                    self.viol(op, lcls, rcls, "eval" if k == 1 else "re-eval", "%s: evaluation #%d gave %s, expected %s" % (what, k, show(g), show(want)), full); return
            bump(self.res, "eval_observations", 2)
            if not rep[3].startswith("ok"):
                bump(self.res, "loop_form_rejected"); return
            if not rep[4].startswith("ok"):
                self.viol(op, lcls, rcls, "loop", "%s: loop program failed: %s" % (what, rep[4][:120]), full); return
            d = parse_dump(rep[5])["syms"]
            for nm, exp in SENTINELS.items():
                if d[nm]["value"] != exp:
                    self.viol(op, lcls, rcls, "operand-overwritten", "%s: variable %s is %s after the evaluation, was %s" % (what, nm, d[nm]["value"], exp), full); return
            for i in (1, 2, 3):
                g = obs(d["R%d" % i]["value"])
                if not ok(g, loopR[i - 1]):
                    self.viol(op, lcls, rcls, "loop-rhs-sibling", "%s: iteration %d gave %s, expected %s" % (what, i, show(g), show(loopR[i - 1])), full); return
                g = obs(d["S%d" % i]["value"])
                if not ok(g, loopS[i - 1]):
                    self.viol(op, lcls, rcls, "loop-lhs-sibling", "%s: iteration %d gave %s, expected %s" % (what, i, show(g), show(loopS[i - 1])), full); return
            bump(self.res, "loop_observations", 6)
            if want != "nonnull":
                ri = d["QI"]["value"]; rw = d["QW"]["value"]
                if ri != ("i:1" if want is True else "i:2"):
                    self.viol(op, lcls, rcls, "if", "%s: if took the %s branch although the condition is %s" % (what, "true" if ri == "i:1" else "false", show(want)), full); return
                if rw != ("i:2" if want is True else "i:0"):
                    self.viol(op, lcls, rcls, "while", "%s: while ran %s iterations although the condition is %s" % (what, rw, show(want)), full); return
                bump(self.res, "branch_observations", 2)
            if len(self.res["samples"]) < 3:
                self.res["samples"].append({"expr": expr, "expected": show(want), "eval": rep[1][:30], "loop": [d["R%d" % i]["value"] for i in (1, 2, 3)]})
        return Unit(ops, check, what)

    def unit_condition(self, X):
        """the value itself as condition of if / while (manual: "Both false and null test false"), also when the null only arrives at run time
        through a variable assigned in the loop or through a function result"""
        xt, xv, xp = X
        progs = [("if", "qi = 0; if %s then qi = 1; else qi = 2; end if;" % xt, "QI", "i:1" if xv is True else "i:2"),
                 ("while-variable", "qw = 0; go = true; while go loop qw = qw + 1; if qw >= 3 then break; end if; go = %s; end loop;" % xt, "QW", "i:3" if xv is True else "i:1"),
                 ("while-function", "function cnd(k) return boolean is begin if k < 2 then return true; end if; return %s; end; "
                                    "qf = 0; while cnd(qf) loop qf = qf + 1; if qf >= 4 then break; end if; end loop;" % xt, "QF", "i:4" if xv is True else "i:2"),
                 ("elsif", "qe = 0; if false then qe = 9; elsif %s then qe = 1; else qe = 2; end if;" % xt, "QE", "i:1" if xv is True else "i:2")]
        ops = []
        for i, (form, prog, var, exp) in enumerate(progs):
            ops += ["parse A C%d %s" % (i, hx(prog)), "run A C%d 1000" % i, "get A %s" % hx(var)]
        pre = setup_ops()
        cls = vclass(xv, xp)
        def check(rep, self=self):
            self.res["evaluations"] += 1
            full = pre + ops
            for i, (form, prog, var, exp) in enumerate(progs):
                pr, rn, gv = rep[3 * i], rep[3 * i + 1], rep[3 * i + 2]
                if not pr.startswith("ok"):
                    bump(self.res, "condition_form_rejected_at_compile_time"); continue
                if not rn.startswith("ok"):
                    self.viol("condition", cls, "-", form, "`%s` [%s] as %s condition: the program failed: %s" % (xt, xp, form, rn[:120]), full); return
                got = rfields(gv)[1][0] if gv.startswith("val") else gv[:40]
                if got != exp:
                    self.viol("condition", cls, "-", form, "`%s` [%s] (%s) as %s condition: %s = %s, expected %s" % (xt, xp, show(xv), form, var, got, exp), full); return
                bump(self.res, "condition_observations")
            self.res["nontrivial"].add(case_hash(["cond", xt, self.desc["mode"]]))
        return Unit(ops, check, "condition %s" % xt)

    def run(self, units):
        pre = setup_ops()
        def on_crash(u, r):
            self.res["evaluations"] += 1
            add_violation(self.res, "C04|crash:%s" % r.sig, "crash while evaluating %s: %s" % (u.desc, r.sig), {"ops": pre + u.ops, "report": r.report[-3000:]})
        if self.shared:
            run_units(self.probe, pre, units, self.res, on_crash, chunk=100)
        else:
            run_units(self.probe, pre, units, self.res, on_crash, chunk=1)
        self.probe.close()
        return self.res


def all_units(sh):
    units = []
    for op in LOGICAL:
        for X in BOOLS:
            for Y in BOOLS:
                units.append(sh.unit_logical(op, X, Y))
    for op in UNARY:
        for X in BOOLS:
            units.append(sh.unit_unary(op, X))
    for X in BOOLS:
        units.append(sh.unit_condition(X))
    for typ, d in REL_OPERANDS.items():
        vals = [(t, p, False) for t, p in d["vals"]]
        nulls = [(t, p, True) for t, p in d["nulls"]] + [(t, p, True) for t, p in UNTYPED_NULLS]
        allo = vals + nulls
        # `matches` is the relational operator of strings (manual: relational operators yield null when an operand is null)
        for op in RELOPS + (["matches"] if typ == "str" else []):
            for (xt, xp, xn) in allo:
                for (yt, yp, yn) in allo:
                    if not xn and not yn and not (xt, yt) in [(vals[0][0], vals[1][0]), (vals[1][0], vals[0][0]), (vals[0][0], vals[0][0])]:
                        continue  # non-null pairs: a few only (the statement is about nulls)
                    units.append(sh.unit_rel(op, (xt, xp), (yt, yp), xn, yn, typ))
    # int/decimal mixing with nulls
    for op in RELOPS:
        for (xt, xp) in REL_OPERANDS["int"]["vals"][:2] + REL_OPERANDS["int"]["nulls"]:
            for (yt, yp) in REL_OPERANDS["dec"]["vals"][:2] + REL_OPERANDS["dec"]["nulls"]:
                xn = (xt, xp) in REL_OPERANDS["int"]["nulls"]; yn = (yt, yp) in REL_OPERANDS["dec"]["nulls"]
                if xn or yn:
                    units.append(sh.unit_rel(op, (xt, xp), (yt, yp), xn, yn, "int-dec"))
                    units.append(sh.unit_rel(op, (yt, yp), (xt, xp), yn, xn, "dec-int"))
    return units


NSH = 14

def plan(tier, seed):
    # the whole space in every tier; "fresh" = new context per expression, "shared" = one context for a whole shuffled batch
    return [{"k": k, "n": NSH, "seed": seed, "mode": ("fresh" if k % 2 == 0 else "shared"), "tier": tier} for k in range(NSH)]


def run_shard(desc):
    sh = Sh(desc)
    units = all_units(sh)
    half = desc["n"] // 2
    mine = [u for i, u in enumerate(units) if i % half == desc["k"] // 2]
    random.Random("%s-%s" % (desc["seed"], desc["k"])).shuffle(mine)
    return sh.run(mine)


def replay(wit):
    r = generic_replay(wit)
    return 1 if r.crashed else 0
