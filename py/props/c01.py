"""C01 — any source text is either executed or rejected with an error; never a crash.

Oracle = sanitizers + crash/foreign-exception monitor: every case must end in {completed, ParseError,
RuntimeError}.  Workloads: (1) construct matrix (every operator/builtin/member x value pool x provenance),
(2) the repository's own texts harvested at run time and token-mutated, (3) random bytes, each through the
C++ API, the C API and (sampled) the `bloc` binary; (4) thorough: coverage-guided libFuzzer."""
import random, os, subprocess, tempfile, shutil, re
from vlib import *
import vlib as _vlib

def add_violation(res, sig, what, witness):
    # this check's workloads cannot legitimately need much memory: an allocator-limit report is a violation here
    _vlib.add_violation(res, sig, what, witness, keep_exhaustion=True)

import corpus

PROPERTY = "C01"
LEVEL = "exploration"
RULE = ("one evaluation = one source text (expression of the construct matrix, harvested/mutated program, random byte string) parsed and, if "
        "accepted, executed under ASan+UBSan through one entry route; held = outcome in {completed, ParseError, RuntimeError} with no sanitizer "
        "report, fatal signal, std::terminate or foreign exception; non-trivial = the text was accepted by the parser and executed (value or "
        "RuntimeError), or it was rejected after at least 3 tokens; distinct = distinct (route, text, operand values) hashes. Thorough tier in addition: "
        "6 libFuzzer processes (clang ASan+UBSan build of the working tree, entry = parse+run in an untrusted context, 250k units each, 3000-statement "
        "budget); one evaluation = one executed unit, distinct non-trivial = inputs kept in the final corpus (each reached new coverage); every "
        "artifact is re-run through the gcc-built monitor and judged by the same rule")
ASSUMPTIONS = ["gcc ASan/UBSan runtimes (a clean run is not memory safety: non-adjacent overflows are invisible)",
               "stack/heap exhaustion out of domain: ASan allocation-size-too-big / out-of-memory / std::bad_alloc / std::length_error are classified "
               "out-of-domain when the case involves a magnitude > 2^20", "stdin readers (input/read/readln), import, include are not generated in-process"]
INCONCLUSIVE_CAP = 0.02

IMAX = (1 << 63) - 1; IMIN = -(1 << 63)

BUILTINS = ["null", "max", "min", "floor", "abs", "sign", "str", "num", "ceil", "round", "sin", "cos", "tan", "atan", "int", "pow", "sqrt", "log", "exp", "log10",
            "mod", "asin", "acos", "sinh", "cosh", "tanh", "clamp", "isnull", "atan2", "hex", "isnum", "raw", "tab", "tup", "getsys", "true", "on", "false", "off",
            "error", "phi", "pi", "ee", "random", "bool", "ii", "lsubstr", "rsubstr", "substr", "chr", "strlen", "ltrim", "rtrim", "trim", "upper", "lower", "strpos",
            "replace", "subraw", "hash", "imag", "iphase", "iconj", "tokenize", "b64enc", "b64dec", "typeof"]
BINOPS = ["+", "-", "*", "/", "%", "**", "power", "&", "|", "^", "<<", ">>", "==", "!=", "<", "<=", ">", ">=", "and", "&&", "or", "||", "xor", "matches", "<>"]
UNOPS = ["-", "+", "~", "not", "!"]


def value_pool():
    P = []
    def add(name, enc, big=False):
        P.append((name, enc, big))
    add("unull", "Zu0"); add("bnull", "Zb0"); add("inull", "Zi0"); add("nnull", "Zn0"); add("snull", "Zs0"); add("xnull", "Zx0"); add("rnull", "Zr0"); add("tnull", "Zi1"); add("mnull", "Zm0")
    add("true", "b:1"); add("false", "b:0")
    for i in (0, 1, -1, 2, 3, 63, 64, 65, 255, 256, -255, 65536):
        add(("i%d" % i).replace("-", "m"), enc_int(i))
    for i in (2 ** 31, 2 ** 32 + 1, IMAX, IMIN, IMIN + 1, 2 ** 53 + 1):
        add(("i%d" % i).replace("-", "m"), enc_int(i), True)
    for nm, d in (("d0", 0.0), ("dm0", -0.0), ("d25", 2.5), ("dm25", -2.5), ("d05", 0.5), ("d255", 255.0), ("dsub", 5e-324)):
        add(nm, enc_num_bits(d2bits(d)))
    for nm, d in (("d1e300", 1e300), ("d2p63", 2.0 ** 63), ("dm2p63", -(2.0 ** 63)), ("dinf", float("inf")), ("dminf", float("-inf")), ("dnan", float("nan")), ("dmax", 1.7976931348623157e308)):
        add(nm, enc_num_bits(d2bits(d)), True)
    for nm, s in (("sempty", b""), ("sabc", b"abc"), ("ssp", b"  "), ("s12", b"12"), ("shex", b"0x1F"), ("s1e5", b"1e5"), ("sbig", b"99999999999999999999"), ("snul", b"a\x00b\xff\x80"),
                  ("s1024", b"ab ," * 256), ("sb64", b"QUJD"), ("sre", b"a(b"), ("sfmt", b"%s%n%d")):
        add(nm, enc_str(s))
    for nm, s in (("xempty", b""), ("xabc", b"ABC"), ("xhigh", b"\x00\xff\x80\x7f"), ("x5", b"12345")):
        add(nm, enc_bytes(s))
    add("m12", "m:%016x%016x" % (d2bits(1.0), d2bits(2.0))); add("m00", "m:%016x%016x" % (d2bits(0.0), d2bits(0.0)))
    add("r1", "r(i:1,s:61)"); add("r2", "r(Zi0,s:)"); add("r3", "r(n:%016x,b:1,x:4142)" % d2bits(2.5))
    add("te", "ti1[]"); add("ti", "ti1[i:1,i:2,i:3]"); add("tin", "ti1[Zi0,i:5]"); add("tn", "tn1[n:%016x]" % d2bits(1.5)); add("ts", "ts1[s:61,s:]"); add("tb", "tb1[b:1]")
    add("tt", "ti2[ti1[i:1],ti1[]]"); add("tr", "tr1{i0,s0}[r(i:1,s:61)]"); add("tx", "tx1[x:41]")
    return P


def prov_text(name, k):
    """k: 0 typed variable, 1 opaque variable, 2 function result"""
    if k == 0: return "v_" + name
    if k == 1: return "o_" + name
    return "idf(v_%s)" % name


def sym(name):
    return hx(name.upper().replace("-", "M"))


INCLUDE_TEXTS = ['include str(1/0);', 'include chr(300);', 'include substr("abc", 1/0);', 'include "p" + str(1/0);', 'include 5;', 'include null;', 'include str();',
                 'include "";', 'include "no/such/file.bloc";', 'a = 0; include str(1/a);', 'include str(tab(1, 1).at(5));', 'include lower(str(int("x")));',
                 'function f return string is begin raise oops; return "x"; end; include f();', 'include hex(1, 1/0);', 'include "no/such" + chr(-1);',
                 'begin include str(1/0); exception when others then nop; end;', 'include raw(1, 65);', 'include tab(1, "a");', 'include tup("a");']


RECURSION_TEXTS = ['function f(n) return integer is begin return f(n + 1); end; print f(1);',
                   'function f(n) return integer is begin return 1 + f(n + 1) + f(n + 2); end; x = f(1); print x;',
                   'function g(n) return integer is begin return 0; end; function f(n) return integer is begin return g(n + 1); end; '
                   'function g(n) return integer is begin return f(n + 1); end; print f(1);',
                   'function f(n) return integer is begin begin return f(n + 1); exception when others then return f(n + 2); end; end; print f(1);',
                   'function f(t) return integer is begin t.concat(1); return f(t); end; print f(tab(1, 1));']


def classify_crash(r, big):
    """returns 'ood' for out-of-domain, else None"""
    s = r.sig or ""
    if big and ("allocation-size-too-big" in s or "out-of-memory" in s or "requested" in s or "bad_alloc" in s or "length_error" in s or "stack-overflow" in s):
        return "ood"
    return None


class Sh:
    def __init__(self, desc):
        self.desc = desc; self.res = new_result()
        self.probe = Probe("asan", timeout=25)
        self.rnd = random.Random("%s-c01-%s-%s" % (desc["seed"], desc["kind"], desc.get("k", 0)))
        self.pool = value_pool()
        self.pmap = {n: (e, b) for n, e, b in self.pool}

    # ------------------------------------------------------------------ matrix
    def setup_ops(self, names):
        ops = ["new A 0", "parse A PRE %s" % hx("function idf(a) return undefined is begin return a; end;"), "run A PRE 100"]
        for n in names:
            e = self.pmap[n][0]
            nm = ("v_" + n).upper().replace("-", "M"); om = ("o_" + n).upper().replace("-", "M")
            ops.append("set A %s %s" % (hx(nm), e))
            ops.append("reg A %s u0" % hx(om)); ops.append("set A %s %s opaque" % (hx(om), e))
        return ops

    def expr_unit(self, text, names, route):
        big = any(self.pmap[n][1] for n in names) or bool(re.search(r"\d{7,}|0[xX][0-9a-fA-F]{6,}", text))
        ops = self.setup_ops(names)
        if route == "capi":
            ops += ["cpexpr A E %s" % hx(text), "ceval A E 20000"]
        elif route == "stmt":
            ops += ["parse A P %s" % hx("zz = %s; print zz;" % text), "run A P 20000"]
        else:
            ops += ["pexpr A E %s" % hx(text), "eval A E 20000"]
        nset = len(ops) - 2
        def check(rep, self=self):
            self.res["evaluations"] += 1
            pr, ev = rep[nset], rep[nset + 1]
            for x in rep:
                if x.startswith("foreign"):
                    h, pos, kw = rfields(x)
                    ty = unhx(pos[0]).decode()
                    if big and ("bad_alloc" in ty or "length_error" in ty):
                        self.res["out_of_domain"] += 1; return
                    add_violation(self.res, "C01|foreign:%s|%s" % (ty, self.construct_of(text)), "`%s` (%s, operands %s): foreign exception %s: %s"
                                  % (text, route, names, ty, unhx(pos[1]).decode("latin-1")[:80]), {"ops": ops}); return
                if x.startswith("leak-"):
                    add_violation(self.res, "C01|error-escaped-wrong-phase|%s" % self.construct_of(text), "`%s`: %s" % (text, x[:100]), {"ops": ops}); return
            if pr.startswith("ok"):
                if ev.startswith("val") or ev.startswith("ok") or ev.startswith("rerr"):
                    self.res["nontrivial"].add(case_hash([route, text, names]))
                    bump(self.res, "executed_value" if not ev.startswith("rerr") else "executed_runtime_error")
                    if "intr=1" in ev:
                        self.res["inconclusive"] += 1; bump(self.res, "runaway_interrupted")
                else:
                    add_violation(self.res, "C01|bad-outcome", "`%s`: %s" % (text, ev[:100]), {"ops": ops})
            elif pr.startswith("perr"):
                bump(self.res, "rejected_at_parse")
            else:
                add_violation(self.res, "C01|bad-outcome", "`%s`: %s" % (text, pr[:100]), {"ops": ops})
            if len(self.res["samples"]) < 3 and pr.startswith("ok"):
                self.res["samples"].append({"route": route, "text": text, "operands": {n: self.pmap[n][0][:40] for n in names}, "outcome": ev[:60]})
        u = Unit(ops, check, (text, names, big, route))
        return u

    def construct_of(self, text):
        m = re.match(r"\s*([a-z0-9]+)\(", text)
        if m and m.group(1) in BUILTINS: return m.group(1)
        m = re.search(r"\.(count|at|put|insert|delete|concat|set)\b", text)
        if m: return "." + m.group(1)
        for op in sorted(BINOPS, key=len, reverse=True):
            if " %s " % op in text: return op
        return text.split("(")[0][:12]

    def on_crash(self, u, r):
        self.res["evaluations"] += 1
        text, names, big, route = u.desc
        if classify_crash(r, big):
            self.res["out_of_domain"] += 1; return
        add_violation(self.res, "C01|crash:%s" % r.sig, "`%s` (%s, operands %s) crashed: %s" % (text, route, {n: self.pmap[n][0][:30] for n in names}, r.sig),
                      {"ops": u.ops, "report": r.report[-4000:]})

    def matrix(self):
        d = self.desc; r = self.rnd
        names = [n for n, _, _ in self.pool]
        units = []
        k, n = d["k"], d["n"]
        quick = d["tier"] == "quick"
        idx = 0
        def take():
            nonlocal idx
            idx += 1
            return (idx % n) == k
        def route():
            x = r.random()
            return "cpp" if x < 0.7 else ("capi" if x < 0.85 else "stmt")
        # unary
        for a in names:
            for pk in (0, 1, 2):
                A = prov_text(a, pk)
                for op in UNOPS:
                    if take(): units.append(self.expr_unit("%s %s" % (op, A), [a], route()))
                for b in BUILTINS:
                    if take(): units.append(self.expr_unit("%s(%s)" % (b, A), [a], route()))
                for mem in ("count()", "at(0)", "delete(0)", "concat(%s)" % A):
                    if take(): units.append(self.expr_unit("%s.%s" % (A, mem), [a], route()))
                for rk in (0, 1, 2, 3, 4294967297):
                    if take(): units.append(self.expr_unit("%s@%d" % (A, rk), [a], route()))
        for b in BUILTINS:
            if take(): units.append(self.expr_unit("%s()" % b, [], route()))
            if take(): units.append(self.expr_unit("%s" % b, [], route()))
        # binary: all operand pairs, provenance drawn at random per operand
        frac = 0.12 if quick else 1.0
        for a in names:
            for b2 in names:
                if r.random() > frac:
                    idx += 1; continue
                A = prov_text(a, r.randrange(3)); B = prov_text(b2, r.randrange(3))
                if not take(): continue
                cons = r.sample(BINOPS, 6 if quick else len(BINOPS))
                for op in cons:
                    units.append(self.expr_unit("%s %s %s" % (A, op, B), [a, b2], route()))
                for f in r.sample(BUILTINS, 14 if quick else len(BUILTINS)):
                    units.append(self.expr_unit("%s(%s, %s)" % (f, A, B), [a, b2], route()))
                for mem in ("at", "delete", "concat", "put", "insert"):
                    if mem in ("put", "insert"):
                        units.append(self.expr_unit("%s.%s(0, %s)" % (A, mem, B), [a, b2], route()))
                        units.append(self.expr_unit("%s.%s(%s, %s)" % (A, mem, B, B), [a, b2], route()))
                    else:
                        units.append(self.expr_unit("%s.%s(%s)" % (A, mem, B), [a, b2], route()))
                for rk in (1, 2, 3, 4):
                    units.append(self.expr_unit("%s.set@%d(%s)" % (A, rk, B), [a, b2], route()))
        # ternary built-ins and members: type-plausible leading arguments (so that the call gets past the first checks and, for
        # replace/strpos/tokenize, really finds a match), the remaining argument from the whole pool in every provenance
        seeds3 = ['replace("abcabc", "b", {Z})', "replace(v_sabc, \"b\", {Z})", 'replace({Z}, "b", "x")', 'replace("abc", {Z}, "x")', "substr(v_sabc, 1, {Z})", "substr(v_sabc, {Z}, 1)",
                  "subraw(v_xabc, 1, {Z})", "subraw(v_xabc, {Z}, 2)", 'strpos(v_sabc, "b", {Z})', 'strpos("abcabc", {Z}, 1)', 'tokenize("a,b,,c", ",", {Z})', 'tokenize("a,b", {Z}, true)',
                  "clamp(5, 1, {Z})", "clamp({Z}, 1, 9)", "clamp(5, {Z}, 9)", "clamp(2.5, {Z}, {Z})", "hex(255, {Z})", "round(2.567, {Z})", "raw(3, {Z})", "raw({Z}, 65)", "tab(2, {Z})", "tab({Z}, 1)",
                  "tup(1, {Z})", "tup({Z}, {Z})", "v_ti.put(1, {Z})", "v_ti.put({Z}, 5)", "v_ti.insert(1, {Z})", "v_ts.insert({Z}, \"q\")", "v_tt.put(0, {Z})", "v_tr.put(0, {Z})", "v_tr.insert(0, {Z})",
                  "v_sabc.put(1, {Z})", "v_sabc.insert({Z}, 66)", "v_xabc.put({Z}, 66)", "v_r1.set@2({Z})", "v_r3.set@3({Z})", "v_r3.set@4({Z})", "idf(v_r1).set@3({Z})", "idf(v_r3).set@4({Z})",
                  "idf(v_r1)@3", "mod({Z}, 3)", "pow(2, {Z})", "atan2({Z}, 1)", "max({Z}, {Z})", "hash(v_sabc, {Z})", "lsubstr(v_sabc, {Z})", "rsubstr(v_sabc, {Z})", "chr({Z})", "b64dec({Z})", "int({Z})", "num({Z})", "str({Z})"]
        base_names = ["sabc", "xabc", "ti", "ts", "tt", "tr", "r1", "r3"]
        for sd in seeds3:
            for z in names:
                for pk in (0, 1, 2):
                    if not take(): continue
                    units.append(self.expr_unit(sd.replace("{Z}", prov_text(z, pk)), [z] + base_names, route()))
        # ternary by seeded sampling
        nt = 2500 if quick else 60000
        for _ in range(nt // n):
            a, b2, c = r.choice(names), r.choice(names), r.choice(names)
            A, B, C = prov_text(a, r.randrange(3)), prov_text(b2, r.randrange(3)), prov_text(c, r.randrange(3))
            f = r.choice(BUILTINS)
            units.append(self.expr_unit("%s(%s, %s, %s)" % (f, A, B, C), [a, b2, c], route()))
            units.append(self.expr_unit("%s.%s(%s, %s)" % (A, r.choice(["put", "insert"]), B, C), [a, b2, c], route()))
            units.append(self.expr_unit("(%s %s %s) %s %s" % (A, r.choice(BINOPS), B, r.choice(BINOPS), C), [a, b2, c], route()))
        r.shuffle(units)
        run_units(self.probe, [], units, self.res, self.on_crash, chunk=60)

    # ------------------------------------------------------------------ programs and bytes
    def text_case(self, text, route, label, trusted=False):
        """text: bytes"""
        big = bool(re.search(rb"\d{7,}|[eE]\d{2,}|0[xX][0-9a-fA-F]{6,}", text)) or text.count(b"(") > 150 or text.count(b"begin") > 100
        # a magnitude above 2^20 can also be *computed* from small literals (10345 ** 3, 1 << 40, 4000 * 4000)
        if not big and re.search(rb"\*\*|<<|\bpow\b|\bpower\b|\d{3,}\s*\*\s*\d{3,}", text) and re.search(rb"\d{2,}", text): big = True
        if route == "cpp": ops = ["new A 0", "parse A P %s" % hx(text), "run A P 20000"]
        elif route == "capi": ops = ["new A 0", "cparse A P %s" % hx(text), "crun A P 20000"]
        elif route == "frag": ops = ["new A 0", "parsef A P %s fixed:%d" % (hx(text), self.rnd.choice([1, 2, 3, 7, 64, 1000])), "run A P 20000"]
        elif route == "expr": ops = ["new A 0", "pexpr A E %s" % hx(text), "eval A E 20000"]
        elif route == "cexpr": ops = ["new A 0", "cpexpr A E %s" % hx(text), "ceval A E 20000"]
        else: ops = ["new A 0", "istmt A %s 20000" % hx(text)]
        if trusted: ops[0] = "new A 1"
        r = self.probe.case(ops)
        self.res["evaluations"] += 1; bump(self.res, "route_" + route)
        if r.timeout:
            self.res["inconclusive"] += 1; bump(self.res, "timeouts"); return None
        if r.crashed:
            bump(self.res, "worker_crashes")
            if classify_crash(r, big):
                self.res["out_of_domain"] += 1; return None
            add_violation(self.res, "C01|crash:%s" % r.sig, "%s text %r (%s) crashed: %s" % (label, text[:200], route, r.sig), {"ops": ops, "text": text.decode("latin-1"), "report": r.report[-4000:]})
            return None
        for x in r.replies:
            if x.startswith("foreign"):
                h, pos, kw = rfields(x); ty = unhx(pos[0]).decode()
                if big and ("bad_alloc" in ty or "length_error" in ty):
                    self.res["out_of_domain"] += 1; return None
                add_violation(self.res, "C01|foreign:%s|%s" % (ty, label), "%s text %r (%s): foreign exception %s: %s" % (label, text[:200], route, ty, unhx(pos[1]).decode("latin-1")[:80]),
                              {"ops": ops, "text": text.decode("latin-1")}); return None
            if x.startswith("leak-"):
                add_violation(self.res, "C01|error-escaped-wrong-phase|%s" % label, "%r: %s" % (text[:100], x[:100]), {"ops": ops}); return None
        last = r.replies[-1] if r.replies else ""
        first = r.replies[1] if len(r.replies) > 1 else ""
        executed = first.startswith("ok")
        if executed or len(corpus.tokens(text.decode("latin-1"))) >= 3:
            self.res["nontrivial"].add(case_hash([route, text.hex()]))
        if "intr=1" in last:
            self.res["inconclusive"] += 1; bump(self.res, "runaway_interrupted"); return None
        bump(self.res, "executed" if executed else "rejected_at_parse")
        if len(self.res["samples"]) < 3 and executed:
            self.res["samples"].append({"route": route, "text": text.decode("latin-1")[:160], "outcome": last[:50]})
        return executed

    def programs(self):
        d = self.desc; r = self.rnd
        base = corpus.harvest()
        if len(base) < 20:
            raise HarnessFailure("corpus harvest found only %d texts" % len(base))
        bump(self.res, "corpus_texts", len(base) if d["k"] == 0 else 0)
        n = (700 if d["tier"] == "quick" else 14000)
        routes = ["cpp", "cpp", "capi", "istmt", "frag"]
        for i in range(n):
            t = r.choice(base)
            nm = r.choice([0, 1, 1, 2, 3])
            for _ in range(nm):
                t = corpus.mutate(t, r, BUILTINS)
            if corpus.FORBIDDEN.search(t):
                continue
            if r.random() < 0.1:
                t = t + "\n" + r.choice(base)
            self.text_case(t.encode("utf-8", "replace"), r.choice(routes), "program")
            if self.res["counters"].get("worker_crashes", 0) > CRASH_BUDGET: break
        # every harvested text unmutated, through every route (shard 0..)
        for j, t in enumerate(base):
            if j % d["n"] == d["k"]:
                for rt in ("cpp", "capi", "istmt", "expr"):
                    self.text_case(t.encode("utf-8", "replace"), rt, "corpus")

    def rbytes(self):
        d = self.desc; r = self.rnd
        base = [t.encode("utf-8", "replace") for t in corpus.harvest()]
        n = (1500 if d["tier"] == "quick" else 120000)
        alph = [bytes(range(256)), b" \t\n\r;,()\"'@.:=+-*/%<>!&|^~#$_0123456789abcdefxyzEXN\\", b"\"\\\n/*# ", b"0123456789.eExX+-", b"()", b"begin end; loop if then for in to while forall function return is"]
        for i in range(n):
            k = r.random()
            if k < 0.35:
                a = r.choice(alph); t = bytes(r.choice(a) for _ in range(r.choice([0, 1, 2, 3, 8, 30, 100, 500, 1023, 1024, 1025, 4096])))
            elif k < 0.7:
                t = bytearray(r.choice(base))
                for _ in range(r.randint(1, 6)):
                    if t:
                        p = r.randrange(len(t)); t[p] ^= 1 << r.randrange(8)
                t = bytes(t)
            elif k < 0.85:
                a = r.choice(base); b = r.choice(base)
                t = a[:r.randint(0, len(a))] + b[r.randint(0, len(b)):]
            else:
                # long lines around the 1023-byte scanner chunk
                a = r.choice(base).replace(b"\n", b" ")
                pad = r.choice([1000, 1015, 1020, 1023, 1024, 1030, 2047, 2048])
                t = b" " * max(0, pad - len(a) // 2) + a
            if corpus.FORBIDDEN.search(t.decode("latin-1")):
                continue
            self.text_case(t, r.choice(["cpp", "capi", "expr", "cexpr", "istmt", "frag"]), "bytes")
            if self.res["counters"].get("worker_crashes", 0) > CRASH_BUDGET: break

    # ------------------------------------------------------------------ coverage-guided fuzzing (thorough tier)
    def fuzz(self):
        """libFuzzer (clang build of the working tree) on the program entry of an untrusted context; every artifact it
        leaves is re-run through vprobe (gcc ASan+UBSan) and judged by the same rule as every other text of this check"""
        import hashlib
        d = self.desc
        bdir = build("fuzz")
        target = os.path.join(bdir, "harness", "fuzz_target")
        work = tempfile.mkdtemp(prefix="c01fz_")
        cdir = os.path.join(work, "corpus"); adir = os.path.join(work, "art"); os.makedirs(cdir); os.makedirs(adir)
        for t in corpus.harvest():
            b = t.encode("latin-1", "replace")
            if len(b) < 2000:
                with open(os.path.join(cdir, hashlib.sha1(b).hexdigest()[:16]), "wb") as f: f.write(b)
        with open(os.path.join(work, "dict"), "w") as f:
            for kw in corpus.KEYWORDS + list(BUILTINS):
                if kw.isalnum() or "_" in kw: f.write('"%s"\n' % kw)
        env = dict(os.environ)
        env["LD_LIBRARY_PATH"] = os.path.join(bdir, "libonly")
        env["ASAN_OPTIONS"] = "detect_leaks=0:allocator_may_return_null=1:abort_on_error=1"
        env["UBSAN_OPTIONS"] = "print_stacktrace=1:halt_on_error=1"
        left = d.get("runs", 150000); attempts = 0
        try:
            while left > 0 and attempts < 8:
                attempts += 1
                cmd = [target, "-runs=%d" % left, "-max_len=1500", "-malloc_limit_mb=512", "-rss_limit_mb=3000", "-timeout=30", "-print_final_stats=1",
                       "-dict=" + os.path.join(work, "dict"), "-artifact_prefix=" + adir + "/", "-seed=%d" % (d["seed"] * 100 + d["k"] * 10 + attempts), cdir]
                try:
                    p = subprocess.run(cmd, env=env, stdin=subprocess.DEVNULL, stdout=subprocess.DEVNULL, stderr=subprocess.PIPE, cwd=work, timeout=7200)
                except subprocess.TimeoutExpired:
                    self.res["inconclusive"] += 1; bump(self.res, "fuzz_watchdog"); break
                err = p.stderr.decode("utf-8", "replace")
                m = re.search(r"stat::number_of_executed_units:\s*(\d+)", err)
                done = int(m.group(1)) if m else 0
                if not m:
                    last = re.findall(r"^#(\d+)\s", err, re.M)
                    done = int(last[-1]) if last else 0
                cov = [int(x) for x in re.findall(r"cov: (\d+)", err)]
                if cov: self.res["counters"]["fuzz_edges_covered_max"] = max(self.res["counters"].get("fuzz_edges_covered_max", 0), max(cov))
                self.res["evaluations"] += done; bump(self.res, "fuzz_units_executed", done)
                self.res["nontrivial_count"] = self.res.get("nontrivial_count", 0) + len(os.listdir(cdir))
                left -= max(done, 1)
                arts = sorted(os.listdir(adir))
                if not arts:
                    if p.returncode != 0 and done == 0:
                        raise HarnessFailure("fuzz_target failed to run: rc=%s\n%s" % (p.returncode, err[-1500:]))
                    break
                for a in arts:
                    ap = os.path.join(adir, a)
                    with open(ap, "rb") as f: text = f.read()
                    os.unlink(ap)
                    bump(self.res, "fuzz_artifacts")
                    before = len(self.res["violations"]); ood = self.res["out_of_domain"]; inc = self.res["inconclusive"]
                    for route in ("cpp", "capi"):
                        self.text_case(text, route, "fuzz-artifact")
                    if len(self.res["violations"]) == before and self.res["out_of_domain"] == ood and self.res["inconclusive"] == inc:
                        # libFuzzer stopped on it (its own limits: 30 s per unit, 512 MB per allocation) but the monitored run is clean
                        bump(self.res, "fuzz_artifacts_not_reproduced_" + a.split("-")[0]); self.res["inconclusive"] += 1
        finally:
            shutil.rmtree(work, ignore_errors=True)

    # ------------------------------------------------------------------ bloc binary
    def cli(self):
        d = self.desc; r = self.rnd
        bdir = build("asan")
        blocbin = os.path.join(bdir, "apps", "bloc")
        base = corpus.harvest()
        work = tempfile.mkdtemp(prefix="c01cli_")
        env = dict(os.environ); env["ASAN_OPTIONS"] = ASAN_OPTS; env["UBSAN_OPTIONS"] = UBSAN_OPTS
        env["LD_LIBRARY_PATH"] = os.path.join(bdir, "libonly")     # no module can be imported
        n = 130 if d["tier"] == "quick" else 2000
        try:
            # statements that only a trusted context accepts (the bloc command's context is trusted): the path expression of
            # include is evaluated while parsing.  No file is read by these texts (the expression fails or names nothing).
            items = [(t, m, True) for t in INCLUDE_TEXTS for m in ("file", "stdin")]
            # runaway recursion must end in the recursion-limit error, not in an exhausted native stack: given to the binary, which has no
            # statement budget (in-process the budget would interrupt the program first)
            items += [(t, m, None) for t in RECURSION_TEXTS for m in ("file", "stdin")]
            for i in range(n):
                t = r.choice(base)
                for _ in range(r.choice([0, 1, 2])):
                    t = corpus.mutate(t, r, BUILTINS)
                if corpus.FORBIDDEN.search(t) or re.search(r"\b(while|loop|for|forall)\b", t) and r.random() < 0.5:
                    continue
                items.append((t, r.choice(["file", "stdin", "expr"]), False))
            for t, mode, trusted in items:
                tb = t.encode("utf-8", "replace")
                # only texts that terminate in-process without interruption are given to the binary (it has no step budget)
                ex = True if trusted is None else self.text_case(tb, "cpp", "program", trusted=trusted)
                if trusted:
                    for rt in ("capi", "istmt"): self.text_case(tb, rt, "program", trusted=True)
                if ex is None:
                    continue
                fn = os.path.join(work, "p.bloc")
                open(fn, "wb").write(tb)
                if mode == "file": cmd, inp = [blocbin, fn, "a1", "b 2"], None
                elif mode == "stdin": cmd, inp = [blocbin, "-"], tb
                else:
                    if b"\x00" in tb: continue
                    cmd, inp = [blocbin, "-e", t], None
                try:
                    p = subprocess.run(cmd, input=inp if inp is not None else b"", stdout=subprocess.PIPE, stderr=subprocess.PIPE, cwd=work, env=env, timeout=20, preexec_fn=lambda: __import__("resource").setrlimit(__import__("resource").RLIMIT_CORE, (0, 0)))
                except subprocess.TimeoutExpired:
                    self.res["inconclusive"] += 1; bump(self.res, "cli_timeouts"); continue
                except ValueError:
                    continue
                self.res["evaluations"] += 1; bump(self.res, "route_cli_" + mode)
                err = p.stderr.decode("utf-8", "replace")
                if p.returncode not in (0, 1) or "Sanitizer" in err or "runtime error:" in err or "terminate called" in err:
                    sig = sig_of_report(err) or ("exit=%d" % p.returncode)
                    add_violation(self.res, "C01|cli-crash:%s" % sig, "bloc %s on %r: exit %d: %s" % (mode, t[:160], p.returncode, sig), {"cmd": cmd[1:], "text": t, "stderr": err[-3000:]})
                else:
                    self.res["nontrivial"].add(case_hash(["cli", mode, t]))
        finally:
            shutil.rmtree(work, ignore_errors=True)


def plan(tier, seed):
    sh = []
    nm = 10
    for k in range(nm): sh.append({"kind": "matrix", "k": k, "n": nm, "seed": seed, "tier": tier})
    for k in range(3): sh.append({"kind": "programs", "k": k, "n": 3, "seed": seed, "tier": tier})
    for k in range(2): sh.append({"kind": "bytes", "k": k, "n": 2, "seed": seed, "tier": tier})
    sh.append({"kind": "cli", "k": 0, "n": 1, "seed": seed, "tier": tier})
    if tier == "thorough":
        for k in range(6): sh.append({"kind": "fuzz", "k": k, "n": 6, "seed": seed, "tier": tier, "runs": 250000})
    return sh


def run_shard(desc):
    s = Sh(desc)
    try:
        if desc["kind"] == "matrix": s.matrix()
        elif desc["kind"] == "programs": s.programs()
        elif desc["kind"] == "bytes": s.rbytes()
        elif desc["kind"] == "fuzz": s.fuzz()
        else: s.cli()
    finally:
        s.probe.close()
    return s.res


def replay(wit):
    w = wit["witness"]
    if "ops" in w:
        r = generic_replay(wit)
        return 1 if r.crashed else 0
    print(w)
    return 0
