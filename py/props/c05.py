"""C05 — evaluating an expression changes nothing but its target (value semantics).

(1) expression matrix: deep dump of every variable before/after each evaluation; only the root variable of an
    in-place receiver chain may change; a side-effect-free node evaluated twice gives deep-equal results;
(2) statement monitor: generated programs run one top-level statement at a time, the dump after each statement
    may differ from the dump before only on the statement's syntactic targets; the unparse text of the compiled
    program is the same before and after its execution (literal constants print their current payload);
(3) alias scenarios: every copy route x in-place mutator x side mutated."""
import random, re
from vlib import *
import model_lang as ml
import lang_diff as ld
from props.c01 import value_pool, BUILTINS, BINOPS, UNOPS

PROPERTY = "C05"
LEVEL = "exploration"
RULE = ("one evaluation = (1) one expression evaluated twice between two deep dumps of ~80 variables, (2) one top-level statement executed between two "
        "deep dumps with its syntactic target set, (3) one alias scenario (copy route, mutator, side); non-trivial = the expression/statement "
        "executed (value or BLOC error) and at least one non-target variable of a reference-counted or heap type (string, bytes, table, tuple) was "
        "compared; distinct = hashes of (form, text, operand names)")
ASSUMPTIONS = ["target set = assigned name; root variable of an in-place receiver chain (concat/put/insert/delete/set@, through .at(i)/@k); the loop variable; "
               "the iterated table of a forall whose body writes the iterator", "random/input/read/readln and module objects are excluded", "gcc ASan/UBSan runtimes"]

MUTATORS = ("put", "insert", "delete", "concat", "set")
NONDET = ("random", "getsys", "getenv")


class Sh:
    def __init__(self, desc):
        self.desc = desc; self.res = new_result(); self.probe = Probe("asan", timeout=40)
        self.E = errnos(self.probe)
        self.rnd = random.Random("%s-c05-%s-%s" % (desc["seed"], desc["kind"], desc["k"]))
        self.pool = value_pool(); self.pmap = {n: (e, b) for n, e, b in self.pool}

    def viol(self, cls, what, wit):
        add_violation(self.res, "C05|" + cls, what, wit)

    # ------------------------------------------------------------------ (1)
    def setup_ops(self):
        ops = ["new A 0", "parse A PRE %s" % hx("function idf(a) return undefined is begin return a; end;"), "run A PRE 100"]
        for n, e, big in self.pool:
            ops.append("set A %s %s" % (hx(("v_" + n).upper()), e))
            ops.append("reg A %s u0" % hx(("o_" + n).upper())); ops.append("set A %s %s opaque" % (hx(("o_" + n).upper()), e))
        return ops

    def expected_dump(self):
        exp = {}
        for n, e, big in self.pool:
            exp[("v_" + n).upper()] = e; exp[("o_" + n).upper()] = e
        return exp

    def norm(self, v):
        v = re.sub(r"#\d+", "", v)
        v = re.sub(r"r\{[^}]*\}\(", "r(", v)
        v = re.sub(r"n:[0-9a-f]{3}[89a-f][0-9a-f]{12}|n:7ff[0-9a-f]{13}", lambda m: m.group(0), v)
        return v

    def expr_unit(self, pre, text, targets, pure, cons):
        ops = ["pexpr A E %s" % hx(text), "eval A E 20000", "eval A E 20000", "dump A nofn"]
        exp = self.expected
        def check(rep, self=self):
            self.res["evaluations"] += 1
            if not rep[0].startswith("ok"):
                bump(self.res, "rejected_at_compile_time"); return
            d = parse_dump(rep[3])["syms"]
            full = pre + ops
            cur = self.cur
            self.cur = {name: d[name]["value"] for name in exp}      # rolling reference: a disturbed context does not blame later expressions
            for name in exp:
                want = cur[name]
                if name in targets: continue
                got = d[name]["value"]
                if self.norm(got) != self.norm(want):
                    kind = "opaque" if name.startswith("O_") else "typed"
                    self.viol("expr-changes-variable|%s|%s-%s" % (cons, kind, want[0] if want[0] != "Z" else "null"), "`%s` changed %s from %s to %s" % (text, name, want[:50], got[:50]), {"ops": full}); self.dirty = True; return
                if d[name]["flags"] != "-":
                    self.viol("expr-leaves-flags|%s" % cons, "`%s` left flags %s on %s" % (text, d[name]["flags"], name), {"ops": full}); self.dirty = True; return
            if pure and rep[1].startswith("val") and rep[2].startswith("val"):
                a = self.norm(rfields(rep[1])[1][0]); b = self.norm(rfields(rep[2])[1][0])
                nan = "n:7ff8" in a or "n:fff8" in a
                if a != b and not nan:
                    self.viol("re-evaluation-differs|%s" % cons, "`%s` evaluated twice in the same state: %s then %s" % (text, a[:60], b[:60]), {"ops": full}); return
            if targets:
                self.dirty = True       # the receiver may legitimately have changed: later units need a fresh context
            self.res["nontrivial"].add(case_hash(["e", text]))
            if len(self.res["samples"]) < 2:
                self.res["samples"].append({"expr": text, "targets": sorted(targets), "first_eval": rep[1][:50]})
        return Unit(ops, check, text)

    def matrix(self):
        d = self.desc; r = self.rnd
        names = [n for n, _, _ in self.pool]
        self.expected = self.expected_dump()
        pre = self.setup_ops()
        k, n = d["k"], d["n"]
        quick = d["tier"] == "quick"
        idx = [0]
        def take():
            idx[0] += 1
            return idx[0] % n == k
        def P(nm, pk):
            return ["v_" + nm, "o_" + nm, "idf(v_%s)" % nm][pk]
        def root(nm, pk):
            return {("v_" + nm).upper()} if pk == 0 else ({("o_" + nm).upper()} if pk == 1 else set())
        cases = []
        for a in names:
            for pk in (0, 1, 2):
                A = P(a, pk)
                for op in UNOPS: cases.append(("%s %s" % (op, A), set(), True, "unary" + op))
                for b in BUILTINS:
                    if b in NONDET: continue
                    cases.append(("%s(%s)" % (b, A), set(), True, b))
                for mem in ("count()", "at(0)"): cases.append(("%s.%s" % (A, mem), set(), True, "." + mem.split("(")[0]))
                cases.append(("%s.delete(0)" % A, root(a, pk), False, ".delete"))
                cases.append(("%s.concat(%s)" % (A, A), root(a, pk), False, ".concat"))
                for rk in (1, 2): cases.append(("%s@%d" % (A, rk), set(), True, "@"))
                # composite receivers: the member works on a temporary or on an element, never on another variable
                for wrap, keep in (("str(%s)", False), ("(%s + \"\")", False), ("(%s + null)", False), ("substr(%s, 0)", False), ("raw(%s)", False), ("idf(%s)", False), ("tab(1, %s).at(0)", False),
                                   ("tup(%s, 1)@1", False), ("trim(%s)", False), ("upper(%s)", False), ("%s.at(0)", True), ("%s@1", True), ("%s@2", True), ("lsubstr(%s, 9)", False), ("b64dec(b64enc(%s))", False)):
                    W = wrap % A
                    tg = root(a, pk) if keep else set()
                    cases.append(("%s.concat(\"!\")" % W, tg, False, "wrapped.concat")); cases.append(("%s.concat(66)" % W, tg, False, "wrapped.concat"))
                    cases.append(("%s.put(0, 66)" % W, tg, False, "wrapped.put")); cases.append(("%s.insert(0, 66)" % W, tg, False, "wrapped.insert")); cases.append(("%s.delete(0)" % W, tg, False, "wrapped.delete"))
                    cases.append(("%s.concat(%s)" % (W, A), tg, False, "wrapped.concat"))
        # constants of the program text as receivers of the in-place members: the node is evaluated twice, the second evaluation must
        # equal the first (the constant itself is never the target) and no variable changes
        for lit in ('"abc"', '""', '"a\\"b"', "null", "12", "true", "1.5", '("x" + "y")', "(null)"):
            args = ['"!"', "66", "33", '""', "null", "raw(1, 66)", "tab(1, 2)", "true"] + [P(a, pk) for a in names for pk in (0, 1)]
            for arg in args:
                cases.append(("%s.concat(%s)" % (lit, arg), set(), True, "const.concat"))
                cases.append(("%s.insert(0, %s)" % (lit, arg), set(), True, "const.insert"))
                cases.append(("%s.put(0, %s)" % (lit, arg), set(), True, "const.put"))
            cases.append(("%s.delete(0)" % lit, set(), True, "const.delete"))
            cases.append(("%s.concat(%s).concat(%s)" % (lit, '"!"', "66"), set(), True, "const.concat"))
        frac = 0.06 if quick else 0.6
        for a in names:
            for b2 in names:
                if r.random() > frac: continue
                pa, pb = r.randrange(3), r.randrange(3)
                A, B = P(a, pa), P(b2, pb)
                for op in (r.sample(BINOPS, 6) if quick else BINOPS): cases.append(("%s %s %s" % (A, op, B), set(), True, op))
                for f in (r.sample(BUILTINS, 12) if quick else BUILTINS):
                    if f in NONDET: continue
                    cases.append(("%s(%s, %s)" % (f, A, B), set(), True, f))
                cases.append(("%s.at(%s)" % (A, B), set(), True, ".at"))
                for mem in ("concat", "delete"): cases.append(("%s.%s(%s)" % (A, mem, B), root(a, pa), False, "." + mem))
                cases.append(("%s.put(0, %s)" % (A, B), root(a, pa), False, ".put")); cases.append(("%s.insert(0, %s)" % (A, B), root(a, pa), False, ".insert"))
                cases.append(("%s.set@1(%s)" % (A, B), root(a, pa), False, ".set@"))
                cases.append(("%s(%s, %s, %s)" % (r.choice(["replace", "substr", "subraw", "strpos", "clamp", "tokenize"]), A, B, r.choice([A, B])), set(), True, "ternary"))
        mine = [c for i, c in enumerate(cases) if i % n == k]
        r.shuffle(mine)
        # units share a context until one of them legitimately mutates a receiver (or a violation dirties it): then a new case starts
        i = 0
        def on_crash(u, rr):
            self.res["evaluations"] += 1
            if rr.sig and ("requested" in rr.sig or "allocation-size-too-big" in rr.sig or "bad_alloc" in rr.sig):
                self.res["out_of_domain"] += 1; return
            add_violation(self.res, "C05|crash:%s" % rr.sig, "`%s` crashed: %s" % (u.desc, rr.sig), {"ops": pre + u.ops, "report": rr.report[-3000:]})
        batch = []
        def flush(b):
            self.cur = dict(self.expected)
            run_units(self.probe, pre, b, self.res, on_crash, chunk=len(b))
        for (text, tg, pure, cons) in mine:
            u = self.expr_unit(pre, text, tg, pure, cons)
            if tg:
                if batch:
                    flush(batch); batch = []
                flush([u])
            else:
                batch.append(u)
                if len(batch) >= 40:
                    flush(batch); batch = []
            if self.res["counters"].get("worker_crashes", 0) > CRASH_BUDGET: return
        if batch:
            flush(batch)

    # ------------------------------------------------------------------ (2)
    def targets_of(self, s):
        k = s[0]
        if k == "assign": return {s[1].upper()}
        if k in ("put", "concat"): return {s[1].upper()}
        if k == "if":
            t = set()
            for c, b in s[1]: t |= self.targets_block(b)
            if s[2]: t |= self.targets_block(s[2])
            return t
        if k == "while": return self.targets_block(s[2])
        if k == "for": return {s[1].upper()} | self.targets_block(s[6])
        if k == "forall":
            t = {s[1].upper()} | self.targets_block(s[4])
            t.add(s[2].upper())      # writes through the iterator land in the table
            return t
        if k == "begin":
            t = self.targets_block(s[1])
            for n, hb in s[2]: t |= self.targets_block(hb)
            return t
        return set()

    def targets_block(self, b):
        t = set()
        for s in b: t |= self.targets_of(s)
        return t

    def statements(self):
        r = self.rnd
        n = 120 if self.desc["tier"] == "quick" else 3000
        for _ in range(n):
            g = ml.Gen(r, r.choice(["loops", "errors", "functions"]))
            funcs, prog = g.program()
            ftext = "\n".join("\n".join(ml.rfunc(f, None)) for f in funcs) + "\n"
            ops = ["new A 0"]
            if funcs: ops += ["parse A F %s" % hx(ftext), "run A F 1000"]
            ops.append("dump A nofn")
            base = len(ops)
            stm = []
            for s in prog:
                t = "\n".join(ml.rstmts([s], 0, None)) + "\n"
                stm.append((s, t))
                ops += ["parse A S %s" % hx(t), "unparse S", "run A S 20000", "unparse S", "resetstop A", "dump A nofn"]
            rr = self.probe.case(ops)
            wit = {"ops": ops, "program": ftext + "".join(t for _, t in stm)}
            if rr.timeout:
                self.res["inconclusive"] += 1; continue
            if rr.crashed:
                bump(self.res, "worker_crashes")
                add_violation(self.res, "C05|crash:%s" % rr.sig, "statement-wise program crashed: %s" % rr.sig, dict(wit, report=rr.report[-3000:])); continue
            rep = rr.replies
            prev = parse_dump(rep[base - 1])["syms"]
            k = base
            for s, t in stm:
                pr, u0, rn, u1, _, dm = rep[k:k + 6]; k += 6
                self.res["evaluations"] += 1
                if not pr.startswith("ok"):
                    break
                if u0 != u1:
                    self.viol("program-text-changed-by-execution", "the text of `%s` is `%s` after its execution" % (t.strip()[:100], unhx(u1.split()[1]).decode("latin-1")[:100]), wit); break
                cur = parse_dump(dm)["syms"]
                tg = self.targets_of(s)
                bad = None
                for name, sv in prev.items():
                    if name in tg: continue
                    cv = cur.get(name)
                    if cv is None or cv["value"] != sv["value"] or cv["type"] != sv["type"]:
                        bad = (name, sv["value"], cv and cv["value"]); break
                if bad:
                    self.viol("statement-changes-non-target|%s" % s[0], "`%s` (targets %s) changed %s from %s to %s" % (t.strip()[:120].replace("\n", " "), sorted(tg), bad[0], bad[1][:50], str(bad[2])[:50]), wit); break
                if any(v["value"][0] in "stxr" for v in cur.values()):
                    self.res["nontrivial"].add(case_hash(["s", t, str(sorted(prev.items()))[:200]]))
                prev = cur
                if rn.startswith("rerr") or "retv=" in rn and "retv=none" not in rn:
                    break
            bump(self.res, "statement_programs")
            if self.res["counters"].get("worker_crashes", 0) > CRASH_BUDGET: return

    # ------------------------------------------------------------------ (3)
    def aliases(self):
        kinds = {
            "string": ('"hello"', ['{x}.concat("!")', "{x}.put(0, 72)", "{x}.insert(0, 72)", "{x}.delete(0)", '{x} = {x} + "z"', "{x}.concat(33)"]),
            "bytes": ("raw(3, 65)", ["{x}.concat(raw(1, 66))", "{x}.put(0, 72)", "{x}.insert(0, 72)", "{x}.delete(0)", "{x}.concat(33)"]),
            "table": ("tab(3, 7)", ["{x}.concat(8)", "{x}.put(0, 9)", "{x}.insert(0, 9)", "{x}.delete(0)", "{x}.concat(tab(1, 5))", "forall e9 in {x} loop e9 = e9 + 1; end loop"]),
            "strtable": ('tab(2, "ab")', ['{x}.concat("c")', '{x}.put(0, "z")', "{x}.delete(1)", '{x}.at(0).concat("!")', 'forall e9 in {x} loop e9.concat("?"); end loop']),
            "nested": ("tab(2, tab(2, 1))", ["{x}.at(0).concat(5)", "{x}.at(1).put(0, 9)", "{x}.put(0, tab(1, 3))", "{x}.delete(0)", "forall e9 in {x} loop e9.concat(4); end loop"]),
            "tuple": ('tup(1, "s", raw(2, 65))', ['{x}.set@1(2)', '{x}.set@2("t")', '{x}@2.concat("!")', "{x}@3.put(0, 66)"]),
        }
        routes = [
            ("assign", "b = a;", "b"),
            ("chain", "b = a, c = b;", "c"),
            ("via-function", "b = idf(a);", "b"),
            ("function-param", None, None),
            ("tab-ctor", "b = tab(2, a);", "b.at(1)"),
            ("tup-ctor", "b = tup(a, 1);", "b@1"),
            ("table-put", "b = tab(2, a); b.put(0, a);", "b.at(0)"),
            ("table-concat", "b = tab(0, a); b.concat(a);", "b.at(0)"),
            ("table-insert", "b = tab(1, a); b.insert(0, a);", "b.at(0)"),
            ("forall-copy", "b = tab(2, a); forall e8 in b loop c = e8; end loop;", "c"),
            ("return-value", "function mk() return undefined is begin loc = %s; return loc; end; a = mk(); b = mk();", "b"),
            ("if-branch", "if true then b = a; end if;", "b"),
            ("null-fill", None, None),
        ]
        pre = "function idf(q) return undefined is begin return q; end;\n"
        for kind, (ctor, muts) in kinds.items():
            for rname, rtext, copyexpr in routes:
                if rname == "tup-ctor" and kind in ("table", "strtable", "nested", "tuple"): continue
                if rname in ("table-put", "table-concat", "table-insert", "forall-copy", "tab-ctor") and kind == "nested" and False: continue
                for mu in muts:
                    for side in ("original", "copy"):
                        if rname == "function-param":
                            # the callee mutates its parameter in place: the caller's variable must not change
                            if "forall" in mu or "=" in mu.split("(")[0]: continue
                            text = pre + "function mut(p) return integer is begin %s; return 1; end;\na = %s; keep = a; z = mut(a);\n" % (mu.format(x="p"), ctor)
                            watch = [("A", "KEEP")]
                        elif rname == "null-fill":
                            if kind not in ("string", "bytes", "table", "strtable"): continue
                            # a null variable filled by concat, then read by operators/builtins/assignments: the reads must not change or steal it
                            filler = {"string": '"abc"', "bytes": "raw(2, 65)", "table": "tab(2, 7)", "strtable": 'tab(1, "ab")'}[kind]
                            text = pre + "src = %s; v = null; v.concat(src); keep = idf(v);\n" % filler
                            reads = {"string": ['w = v + "def";', "w = upper(v);", "w = v;", "w = tup(v, 1);", "w = tab(1, v);", "w = strlen(v);"], "bytes": ["w = v;", "w = tab(1, v);", "w = b64enc(v);"],
                                     "table": ["w = v;", "w = v.count();", "w = tab(1, v);"], "strtable": ["w = v;", 'w = v.at(0) + "x";', "w = upper(v.at(0));"]}[kind]
                            text += " ".join(reads) + "\n"
                            watch = [("V", "KEEP"), ("SRC", None)]
                            if side == "copy" or mu != muts[0]: continue
                        else:
                            rt = rtext % ctor if "%s" in rtext else rtext
                            if rname == "return-value":
                                text = pre + rt + "\nkeep = idf(a);\n" + (mu.format(x="a") if side == "original" else mu.format(x="b")) + ";\n"
                                watch = [("B", "KEEP")] if side == "original" else [("A", "KEEP")]
                            else:
                                target = "a" if side == "original" else copyexpr
                                if side == "copy" and ("=" in mu.split("(")[0]) and not copyexpr.isalpha(): continue
                                if "forall" in mu and not target.isalpha() and "@" in target: continue
                                text = pre + "a = %s;\n%s\nkeep = idf(%s);\n%s;\nafter = idf(%s);\n" % (ctor, rt, "a" if side == "copy" else copyexpr, mu.format(x=target), "a" if side == "copy" else copyexpr)
                                watch = [("AFTER", "KEEP")]
                        ops = ["new A 0", "parse A P %s" % hx(text), "run A P 20000", "dump A nofn"]
                        rr = self.probe.case(ops)
                        self.res["evaluations"] += 1; bump(self.res, "alias_scenarios")
                        wit = {"ops": ops, "program": text}
                        if rr.crashed:
                            bump(self.res, "worker_crashes")
                            add_violation(self.res, "C05|alias|crash:%s" % rr.sig, "alias scenario %s/%s/%s crashed: %s" % (kind, rname, side, rr.sig), dict(wit, report=rr.report[-3000:])); continue
                        rep = rr.replies
                        if not rep[1].startswith("ok"):
                            bump(self.res, "alias_scenario_rejected"); continue
                        if not rep[2].startswith("ok"):
                            bump(self.res, "alias_scenario_runtime_error"); continue
                        d = parse_dump(rep[3])["syms"]
                        for w, ref in watch:
                            if ref is None: continue
                            if w not in d or ref not in d: continue
                            if re.sub(r"#\d+", "", d[w]["value"]) != re.sub(r"#\d+", "", d[ref]["value"]):
                                self.viol("alias|%s|%s|%s" % (kind, rname, side), "after `%s` on the %s, the other side changed: %s is %s, was %s\n%s" % (mu, side, w, d[w]["value"][:60], d[ref]["value"][:60], text[-200:]), wit); break
                        else:
                            self.res["nontrivial"].add(case_hash(["a", text]))


def plan(tier, seed):
    sh = [{"kind": "matrix", "k": k, "n": 10, "seed": seed, "tier": tier} for k in range(10)]
    sh += [{"kind": "statements", "k": k, "n": 5, "seed": seed, "tier": tier} for k in range(5)]
    sh += [{"kind": "aliases", "k": 0, "n": 1, "seed": seed, "tier": tier}]
    return sh


def run_shard(desc):
    s = Sh(desc)
    try:
        getattr(s, desc["kind"])()
    finally:
        s.probe.close()
    return s.res


def replay(wit):
    print(wit["witness"].get("program", ""))
    r = generic_replay(wit)
    return 1 if r.crashed else 0
