"""C11 — a rejected source text does not disturb anything that was valid before it.

Twin-context monitor: contexts A and B run the same valid prefix P; A is then handed a text R that the parser
rejects (a valid program over P's names corrupted at a token position); the hooked deep dump of A must be
unchanged for everything that existed before R (values, types, constraints, functions with their unparsed
bodies, control depth, exec level, pending symbol backups), and a probe program Q must behave in A exactly as
in B (which never saw R)."""
import random, re
from vlib import *
import model_lang as ml
import lang_diff as ld
import corpus

PROPERTY = "C11"
LEVEL = "exploration"
RULE = ("one evaluation = one (prefix P, rejected text R, probe Q) triple: R is obtained from a valid program over P's names (type-changing "
        "assignments, loops over P's tables, new functions and redefinitions of P's first/middle/last declared functions, handlers) by truncating, "
        "deleting, replacing or unbalancing at a token position and is kept only if really rejected; compared: dump of A before/after R, and Q in A "
        "vs Q in twin B; non-trivial = R was rejected after at least 2 tokens and P defined >= 1 function and >= 2 variables; distinct = hashes of (P, R)")
ASSUMPTIONS = ["the harness dump (public loadVariable/getSymbol + read-only hooks) shows everything a later program can observe", "names introduced only by R are projected out",
               "gcc ASan/UBSan runtimes"]

R_TEMPLATES = [
    'a = "now a string"; b = 2.5; t = tab(1, "x"); p = 7; s = 5; print a b;',
    'for i in 1 to 3 loop a = a + i; forall e in t loop e = e + 1; end loop; end loop; print a;',
    'forall e in w loop e = 5; for j in 1 to 2 loop c = c + 1; end loop; end loop;',
    'begin a = 1 / 0; exception when divide_by_zero then a = "dz"; when others then a = 2; end; print a;',
    'if a > b then a = "x"; elsif p then b = tab(2, 1); else c = tup(1, 2); end if;',
    'while c < 3 loop c = c + 1; s = s + "x"; if c == 2 then break; end if; end loop;',
    'function fn0(x0) return integer is begin return x0 + 100; end; c = fn0(1); print c;',
    'function fn1(x0, x1) return string is begin return "new"; end; function newf(q) return integer is begin return q; end; print newf(2);',
    'function fn0(x0:integer, x1:integer, x2:integer, x3:integer) return integer is begin for li in 1 to 2 loop x0 = x0 + li; end loop; return x0; end;',
    '$a1 = 5; $a1 = $a1 + 1; for $k9 in 1 to 2 loop nop; end loop; zz = tab(2, tab(1, 1)); zz.at(0).concat(3);',
    't.concat(5); w.put(0, 9); r9 = tup(1, "a"); r9.set@1(4); print r9@2;',
    'a = b, b = c, c = a, print a b c; nop; trace false;',
    'for $v in 1 to 3 loop a = a + $v; for $v2 in 1 to 2 loop c = $v2; end loop; end loop; print $v;',
    'forall e in $t loop e = e + $v; forall f in $t loop c = f; end loop; end loop; $sx = $sx + "y"; $v = $v + 1;',
    'begin for $v in 3 to 1 desc loop raise oops; end loop; exception when oops then $v = 0; end; $t.concat(4); $t.put(0, $v);',
    # a type-constrained variable re-typed within what its constraint allows (another element type / dimension), then more statements
    'r9 = 5; tr9 = "x"; c = c + 1; print c r9 tr9; r9 = tup("s", 2);',
    'r9 = tup(2.5); tr9 = tab(1, tup(2.5, 1)); r9.set@1(0.5); print r9@1 tr9.count();',
    '$t = tab(3, "x"); $t.concat("y"); print $t.count(); c = c + 1; print c; a = $t.at(0) + "z";',
    '$t = tab(2, 2.5); $v = 2.5; $sx = str($v); for $v2 in 1 to 2 loop c = c + $v2; end loop; print c $sx;',
    '$t = tab(1, tab(1, 1)); $t.at(0).concat(2); forall zq in $t loop c = zq.count(); end loop; print c;',
]


def variants(text, rnd, limit):
    """corrupted versions of a valid text: every truncation point, deletions, replacements, unbalancing"""
    toks = corpus.tokens(text)
    nz = [i for i, t in enumerate(toks) if not t.isspace()]
    out = []
    for i in nz[1:]:
        out.append(("trunc@%d" % i, "".join(toks[:i])))
    for i in nz:
        out.append(("del@%d" % i, "".join(toks[:i] + toks[i + 1:])))
    for i in nz:
        rep = rnd.choice(corpus.KEYWORDS + corpus.OPERATORS + ["end", ";", ")", "(", "is", "return", "loop", "then"])
        out.append(("repl@%d:%s" % (i, rep), "".join(toks[:i] + [rep] + toks[i + 1:])))
    for i in nz[::3]:
        ins = rnd.choice(["(", ")", '"', "/*", "begin", "end;", "end loop;", "end if;", "then", "@", "."])
        out.append(("ins@%d:%s" % (i, ins), "".join(toks[:i] + [ins, " "] + toks[i:])))
    rnd.shuffle(out)
    return out[:limit]


class Sh:
    def __init__(self, desc):
        self.desc = desc; self.res = new_result(); self.probe = Probe("asan", timeout=40)
        self.E = errnos(self.probe)
        self.rnd = random.Random("%s-c11-%s" % (desc["seed"], desc["k"]))
        self.route = desc["route"]

    def viol(self, cls, what, wit):
        add_violation(self.res, "C11|" + cls, what, wit)

    def triple(self, ptext, rtext, qtext, label, pfuncs):
        if self.route == "istmt":
            # statement-at-a-time (interactive) route: `resetstop` stands in for the separate parse step so that the replies keep their positions
            ops = ["new A 0", "resetstop A", "istmt A %s 20000" % hx(ptext), "resetstop A", "dump A",
                   "istmt A %s 20000" % hx(rtext), "require perr", "dump A",
                   "resetstop A", "istmt A %s 20000" % hx(qtext), "resetstop A", "dump A",
                   "new B 0", "resetstop B", "istmt B %s 20000" % hx(ptext), "resetstop B",
                   "resetstop B", "istmt B %s 20000" % hx(qtext), "resetstop B", "dump B"]
            return self._judge(ops, ptext, rtext, qtext, label, pfuncs)
        P, R = ("cparse", "crun") if self.route == "capi" else ("parse", "run")
        ops = ["new A 0", "%s A P %s" % (P, hx(ptext)), "%s A P 20000" % R, "resetstop A", "dump A",
               "%s A R %s" % (P, hx(rtext)), "require perr", "dump A",
               "%s A Q %s" % (P, hx(qtext)), "%s A Q 20000" % R, "resetstop A", "dump A",
               "new B 0", "%s B P2 %s" % (P, hx(ptext)), "%s B P2 20000" % R, "resetstop B",
               "%s B Q2 %s" % (P, hx(qtext)), "%s B Q2 20000" % R, "resetstop B", "dump B"]
        return self._judge(ops, ptext, rtext, qtext, label, pfuncs)

    def _judge(self, ops, ptext, rtext, qtext, label, pfuncs):
        r = self.probe.case(ops)
        self.res["evaluations"] += 1
        wit = {"ops": ops, "prefix": ptext, "rejected": rtext, "probe": qtext, "how": label}
        if r.timeout:
            self.res["inconclusive"] += 1; return "timeout"
        if r.crashed and len(r.replies) > 5 and not r.replies[5].startswith("perr"):
            raise HarnessFailure("crash in a case whose text was not rejected: " + str(r.sig))
        if r.crashed:
            bump(self.res, "worker_crashes")
            add_violation(self.res, "C11|crash:%s" % r.sig, "crash after rejected text (%s) `%s`: %s" % (label, rtext[-120:], r.sig), dict(wit, report=r.report[-3000:])); return "crash"
        rep = r.replies
        if not rep[1].startswith("ok"):
            raise HarnessFailure("prefix rejected: " + rep[1][:200] + "\n" + ptext)
        if not rep[5].startswith("perr"):
            bump(self.res, "variant_accepted_by_parser"); return "accepted"
        if self.route == "istmt" and " nst=0" not in rep[5]:
            # statement-at-a-time: the statements before the refused one were accepted and executed, which legitimately changes the state
            bump(self.res, "istmt_text_partly_executed"); return "accepted"
        bump(self.res, "rejected_texts")
        rep = rep[:6] + rep[7:]       # drop the reply of `require`
        d0 = parse_dump(rep[4]); d1 = parse_dump(rep[6])
        # -- nothing that existed before may have changed
        for k in ("depth", "lvl", "brk", "cont", "ret", "parsing"):
            if d0["kw"].get(k) != d1["kw"].get(k):
                self.viol("state|" + k, "%s: %s went from %s to %s after the rejected text `%s`" % (label, k, d0["kw"].get(k), d1["kw"].get(k), rtext[-100:]), wit); return "v"
        if d1["kw"].get("backed") != "0":
            self.viol("state|backed-symbols", "%s: %s symbol backups pending after the parse returned" % (label, d1["kw"].get("backed")), wit); return "v"
        for name, s0 in d0["syms"].items():
            s1 = d1["syms"].get(name)
            if s1 is None:
                self.viol("symbol-lost", "%s: variable %s disappeared" % (label, name), wit); return "v"
            for fld in ("type", "flags", "value"):
                if re.sub(r"#\d+", "", s0[fld]) != re.sub(r"#\d+", "", s1[fld]):
                    self.viol("symbol-%s" % fld, "%s: %s of %s went from %s to %s after the rejected text `...%s`" % (label, fld, name, s0[fld][:60], s1[fld][:60], rtext[-80:]), wit); return "v"
        for key, f0 in d0["fns"].items():
            f1 = d1["fns"].get(key)
            if f1 is None:
                self.viol("function-lost", "%s: function %s/%d disappeared after the rejected text `...%s`" % (label, key[0], key[1], rtext[-80:]), wit); return "v"
            for fld in ("params", "ret", "body"):
                if re.sub(r"#\d+", "", f0[fld]) != re.sub(r"#\d+", "", f1[fld]):
                    show = (unhx(f1[fld]).decode("latin-1")[:80] if fld == "body" and f1[fld] != "NULLBODY" else f1[fld])
                    self.viol("function-%s" % fld, "%s: %s of function %s/%d changed after the rejected text `...%s` (now %s)" % (label, fld, key[0], key[1], rtext[-80:], show), wit); return "v"
        # -- probe twin
        qa_parse, qa_run, qb_parse, qb_run = rep[7], rep[8], rep[15], rep[16]
        if qa_parse.split()[0] != qb_parse.split()[0]:
            self.viol("probe-acceptance", "%s: probe %s in A but %s in the twin, after rejected `...%s`" % (label, qa_parse[:80], qb_parse[:60], rtext[-80:]), wit); return "v"
        if qa_parse.startswith("ok"):
            oa = ld.impl_outcome(qa_run, self.E); ob = ld.impl_outcome(qb_run, self.E)
            if oa[0] != ob[0] or oa[2] != ob[2]:
                self.viol("probe-behaviour", "%s: probe gives %s %r in A but %s %r in the twin, after rejected `...%s`" % (label, oa[0], oa[2][-80:], ob[0], ob[2][-80:], rtext[-80:]), wit); return "v"
        da = parse_dump(rep[10]); db = parse_dump(rep[18])
        for name, sb in db["syms"].items():
            if name not in d0["syms"]:
                continue      # a name the prefix did not have: if the rejected text introduced it too, it is outside the guarantee
            sa = da["syms"].get(name)
            if sa is None or re.sub(r"#\d+", "", sa["value"]) != re.sub(r"#\d+", "", sb["value"]) or sa["flags"] != sb["flags"]:
                self.viol("probe-final-state", "%s: after the probe %s is %s in A, %s in the twin" % (label, name, sa and sa["value"][:50], sb["value"][:50]), wit); return "v"
        if len(d0["fns"]) >= 1 and len(d0["syms"]) >= 2 and len(corpus.tokens(rtext)) >= 2:
            self.res["nontrivial"].add(case_hash([ptext, rtext]))
        if len(self.res["samples"]) < 3:
            self.res["samples"].append({"route": self.route, "rejected": rtext[-160:], "how": label, "parse_error": rep[5][:40], "probe_outcome": qa_run[:30]})
        return "ok"

    def includes(self):
        """the rejected text is `include "file";` whose source redefines functions (definitions take effect while parsing) and then fails"""
        import tempfile, shutil, os
        work = tempfile.mkdtemp(prefix="c11inc_")
        probe = Probe("asan", cwd=work, timeout=40)
        try:
            pre = ('function f(x) return integer is begin return x + 1; end;\nfunction g(x, y) return integer is begin return f(x) * y; end;\n'
                   'a = 5; s = "keep"; t = tab(2, 1); $v = 3;\n')
            q = 'print "@@1:" f(1) " " g(2, 3) " " a " " s " " t.count() " " $v;\n'
            bads = ['function f(x) return integer is begin return x + 100; end;\nb = (1;\n',
                    'function g(x, y) return integer is begin return 0; end;\nfunction f(x) return integer is begin return 0; end;\nprint 1 +;\n',
                    'a = "retyped"; s = 5;\nfunction h(z) return integer is begin return z; end;\nfunction f(x) return integer is begin return h(x); end;\nend loop;\n',
                    'function f(x) return integer is begin return x + 100;\n', 't = "x"; $v = 4;\nfunction f(x, y, z) return integer is begin return 1; end;\n) ;\n']
            for i, bad in enumerate(bads):
                with open(os.path.join(work, "bad%d.bloc" % i), "w") as fh: fh.write(bad)
                rtext = 'include "bad%d.bloc";\n' % i
                for route in ("cpp", "istmt"):
                    if route == "cpp":
                        ops = ["new A 1", "parse A P %s" % hx(pre), "run A P 1000", "dump A", "parse A R %s" % hx(rtext), "dump A", "parse A Q %s" % hx(q), "run A Q 1000"]
                    else:
                        ops = ["new A 1", "resetstop A", "istmt A %s 1000" % hx(pre), "dump A", "istmt A %s 1000" % hx(rtext), "dump A", "resetstop A", "istmt A %s 1000" % hx(q)]
                    rr = probe.case(ops)
                    self.res["evaluations"] += 1; bump(self.res, "include_rejections")
                    wit = {"ops": ops, "prefix": pre, "rejected": rtext + " -- " + bad, "probe": q, "how": "include/" + route}
                    if rr.crashed:
                        add_violation(self.res, "C11|crash:%s" % rr.sig, "crash after a rejected include (%s): %s" % (route, rr.sig), dict(wit, report=rr.report[-3000:])); continue
                    rep = rr.replies
                    if not rep[4].startswith("perr"):
                        raise HarnessFailure("include of a bad source was not rejected: %s" % rep[4][:100])
                    d0, d1 = parse_dump(rep[3]), parse_dump(rep[5])
                    bad_ = None
                    for key, f0 in d0["fns"].items():
                        f1 = d1["fns"].get(key)
                        if f1 is None or any(re.sub(r"#\d+", "", f0[x]) != re.sub(r"#\d+", "", f1[x]) for x in ("params", "ret", "body")):
                            bad_ = "function %s/%d %s" % (key[0], key[1], "disappeared" if f1 is None else "changed"); break
                    for name, s0 in d0["syms"].items():
                        s1 = d1["syms"].get(name)
                        if not bad_ and (s1 is None or any(re.sub(r"#\d+", "", s0[x]) != re.sub(r"#\d+", "", s1[x]) for x in ("type", "flags", "value"))):
                            bad_ = "variable %s went from %s %s to %s" % (name, s0["type"], s0["value"][:30], s1 and (s1["type"] + " " + s1["value"][:30]))
                    out = unhx(rfields(rep[7])[2].get("out", "-"))
                    if not bad_ and ld.markers(out) != ["@@1:2 9 5 keep 2 3"]:
                        bad_ = "the probe printed %r" % out[-80:]
                    if bad_:
                        self.viol("include|%s" % bad_.split(" ")[0], "after the rejected `%s` (%s route; source: %s): %s" % (rtext.strip(), route, bad[:60].replace("\n", " "), bad_), wit); continue
                    self.res["nontrivial"].add(case_hash(["inc", bad, route]))
        finally:
            probe.close(); shutil.rmtree(work, ignore_errors=True)

    def run(self):
        r = self.rnd
        if self.desc["k"] in (0, 100): self.includes()
        nP = 4 if self.desc["tier"] == "quick" else 30
        perR = 22 if self.desc["tier"] == "quick" else 120
        for _ in range(nP):
            g = ml.Gen(r, "functions", nfuncs=r.randint(2, 3))
            funcs, prog = g.program(nstmts=r.randint(2, 5))
            b = ml.bounded(funcs, prog)
            if b is None or b[1][0] == "error":
                continue        # prefixes end normally (any outcome would do, this keeps P's variables all assigned)
            ptext = ml.render(funcs, prog[:10], r) + '$v = 3; $v2 = 1; $t = tab(2, 1); $sx = "s"; r9 = tup(1, "a", true); tr9 = tab(2, tup(1, "a"));\n' + "\n".join(ml.rstmts(prog[10:], 0, r)) + "\n"
            qtext = "\n".join(ml.rstmts(ml.probe_program(r, funcs), 0, r)) + "\n"
            if self.route == "istmt":
                # the prefix also redefines its first function successfully (a definition that replaces another one is kept by the function table
                # together with a backup of the old one); the refused texts are single statements
                f0 = funcs[0]
                ptext += "\n".join(ml.rfunc(dict(f0, body=[("return", ("int", 515151))]), None)) + "\n"
                singles = []
                for f in funcs:
                    singles.append("\n".join(ml.rfunc(dict(f, body=[("print", 1, [("int", 1)]), ("return", ("int", 7))]), None)))
                singles.append("function newfn(q:integer) return integer is begin for li in 1 to 2 loop q = q + li; end loop; return q; end;")
                singles.append("function fn0(x0, x1, x2, x3, x4) return string is begin begin x0 = 1; exception when others then x1 = 2; end; return \"five\"; end;")
                singles += ['for i in 1 to 3 loop a = a + i; forall e in t loop e = e + 1; end loop; end loop;', 'begin a = 1 / 0; exception when divide_by_zero then a = "dz"; when others then a = 2; end;',
                            'if a > b then a = "x"; elsif p then b = tab(2, 1); else c = tup(1, 2); end if;', 'forall e in $t loop e = e + $v; forall f in $t loop c = f; end loop; end loop;']
                for src in singles:
                    for how, rt in variants(src, r, perR):
                        self.triple(ptext, rt, qtext, how, funcs)
                        if self.res["counters"].get("worker_crashes", 0) > CRASH_BUDGET: return
                continue
            # rejected texts: templates + another generated program over the same names (redefines fn0.., retypes variables)
            sources = list(R_TEMPLATES)
            g2 = ml.Gen(r, r.choice(["functions", "loops", "errors"]), nfuncs=r.randint(1, 3))
            f2, p2 = g2.program(nstmts=r.randint(2, 4))
            sources.append(ml.render(f2, p2[10:], r))
            # redefinition of each of P's functions (first, middle, last declared) with a different body
            for f in funcs:
                sources.append("\n".join(ml.rfunc(dict(f, body=[("return", ("int", 424242))]), None)) + "\nc = 1;\n")
                sources.append("c = 2;\n" + "\n".join(ml.rfunc(dict(f, body=[("print", 1, [("int", 1)]), ("return", ("int", 7))]), None)) + "\nprint 1 +;\n")
            for src in sources:
                for how, rt in variants(src, r, perR if src in R_TEMPLATES else perR // 2):
                    self.triple(ptext, rt, qtext, how, funcs)
                    if self.res["counters"].get("worker_crashes", 0) > CRASH_BUDGET: return


def plan(tier, seed):
    return [{"k": k, "n": 16, "seed": seed, "tier": tier, "route": "cpp" if k % 2 == 0 else "capi"} for k in range(16)] + \
           [{"k": 100 + k, "n": 4, "seed": seed, "tier": tier, "route": "istmt"} for k in range(4)]


def run_shard(desc):
    s = Sh(desc)
    try:
        s.run()
    finally:
        s.probe.close()
    return s.res


def replay(wit):
    w = wit["witness"]
    print("--- prefix\n%s\n--- rejected (%s)\n%s\n--- probe\n%s" % (w.get("prefix"), w.get("how"), w.get("rejected"), w.get("probe")))
    r = generic_replay(wit)
    return 1 if r.crashed else 0
