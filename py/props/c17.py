"""C17 — every module object is destroyed exactly once, after its last reference is gone.

Observer: the verification modules vmod/vmod2 log create/destroy/method events (tombstone mode records stale and
double use instead of crashing; a second pass really frees so that ASan sees use-after-free by itself).
Offline checker over the event log + a python reference-graph model of which variable / table element / tuple
item refers to which object: no destroy while model-reachable (statement-granular, phase marks in the log), no
method on a dead or foreign object, exact argument values, and after all contexts and programs are released
created == destroyed exactly once."""
import os, random, tempfile, shutil, re
from vlib import *

PROPERTY = "C17"
LEVEL = "exploration"
RULE = ("one evaluation = one generated program over object references (create, copy, overwrite, drop, tables/tuples of objects, function "
        "parameters/returns/locals, loops, errors, forall, two modules mixed) executed one top-level statement at a time with phase marks in the "
        "observer log, followed by a release sequence (programs/contexts/clone/purge in random order); non-trivial = at least 3 objects were created and "
        "at least one was still reachable in the model when the contexts were released; distinct = program hashes")
ASSUMPTIONS = ["reference-graph model predicts the order and number of constructor evaluations (tab(n, ctor) evaluates the constructor n times)",
               "only the early direction (destroy while reachable) and the final balance are asserted: temporaries and function locals may be released lazily",
               "vmod observer modules built from /verif/vmod", "gcc ASan/UBSan runtimes"]

FUNCS = ('function keep(p:vmod) return vmod is begin return p; end;\n'
         'function make(n:integer) return vmod is begin loc = vmod(n); return loc; end;\n'
         'function makedrop(n:integer) return integer is begin loc = vmod(n); other = vmod2(n + 1); return loc.id(); end;\n'
         'function second(p:vmod, q:vmod) return vmod is begin return q; end;\n'
         'function failing(p:vmod) return integer is begin tmp = vmod(4242); raise oops; return 1; end;\n')


FLIP = ("function flip(p:vmod, n:integer) return vmod is begin k = p.tag(); q = p.settag(k + 1); "
        "if k < n then return vmod(7); end if; return 5; end; ")


class Model:
    """variables -> references; a reference is ('o', module, serial)"""
    def __init__(self):
        self.env = {}
        self.serial = {"vmod": 0, "vmod2": 0}
        self.created = []

    def new(self, mod):
        self.serial[mod] += 1
        ref = ("o", mod, self.serial[mod])
        self.created.append(ref)
        return ref

    def reachable(self):
        out = set()
        def walk(v):
            if isinstance(v, tuple) and v and v[0] == "o": out.add(v)
            elif isinstance(v, list):
                for x in v: walk(x)
        for v in self.env.values(): walk(v)
        return out


class Gen:
    def __init__(self, rnd):
        self.r = rnd; self.m = Model(); self.tag = 10
        self.objvars = ["a", "b", "c", "d"]; self.tabs = ["t", "u"]; self.tups = ["r"]
        self.stmts = []     # (text, expected pings [(module, serial)])

    def t(self):
        self.tag += 1; return self.tag

    def ctor(self):
        mod = self.r.choice(["vmod", "vmod", "vmod2"])
        k = self.r.random()
        if k < 0.6: text = "%s(%d)" % (mod, self.t())
        elif k < 0.8: text = '%s(%d, "l")' % (mod, self.t())
        else: text = "%s()" % mod
        return text, mod

    def live_vars(self):
        return [v for v in self.objvars if isinstance(self.m.env.get(v), tuple)]

    def step(self):
        r = self.r; m = self.m; k = r.random()
        lv = self.live_vars()
        if k < 0.22 or not lv:
            v = r.choice(self.objvars); text, mod = self.ctor()
            ref = m.new(mod); m.env[v] = ref
            return "%s = %s;" % (v, text)
        if k < 0.32:
            v = r.choice(self.objvars); s = r.choice(lv)
            m.env[v] = m.env[s]
            return "%s = %s;" % (v, s)
        if k < 0.40:
            v = r.choice(lv); m.env[v] = None
            return "%s = null;" % v
        if k < 0.50:
            tb = r.choice(self.tabs); n = r.randint(1, 3); text, mod = self.ctor()
            m.env[tb] = [m.new(mod) for _ in range(n)]
            return "%s = tab(%d, %s);" % (tb, n, text)
        if k < 0.58:
            tb = r.choice(self.tabs); s = r.choice(lv)
            if isinstance(m.env.get(tb), list) and m.env[tb] and m.env[tb][0][1] == m.env[s][1]:
                if r.random() < 0.5:
                    m.env[tb].append(m.env[s]); return "%s.concat(%s);" % (tb, s)
                i = r.randrange(len(m.env[tb])); m.env[tb][i] = m.env[s]; return "%s.put(%d, %s);" % (tb, i, s)
            return "nop;"
        if k < 0.64:
            tb = r.choice(self.tabs)
            if isinstance(m.env.get(tb), list) and m.env[tb]:
                i = r.randrange(len(m.env[tb]))
                if r.random() < 0.5:
                    del m.env[tb][i]; return "%s.delete(%d);" % (tb, i)
                v = r.choice(self.objvars); m.env[v] = m.env[tb][i]; return "%s = %s.at(%d);" % (v, tb, i)
            return "nop;"
        if k < 0.70:
            s = r.choice(lv); m.env["r"] = [m.env[s], 1]
            return "r = tup(%s, 1);" % s
        if k < 0.74 and isinstance(m.env.get("r"), list):
            v = r.choice(self.objvars); m.env[v] = m.env["r"][0]
            return "%s = r@1;" % v
        if k < 0.80:
            v = r.choice(self.objvars); s = r.choice(lv)
            if m.env[s][1] != "vmod":
                return "nop;"
            m.env[v] = m.env[s]
            return "%s = keep(%s);" % (v, s)
        if k < 0.85:
            v = r.choice(self.objvars); ref = m.new("vmod"); m.env[v] = ref
            return "%s = make(%d);" % (v, self.t())
        if k < 0.89:
            m.new("vmod"); m.new("vmod2")
            return "z = makedrop(%d);" % self.t()
        if k < 0.92 and len(lv) >= 2:
            s1, s2 = r.sample(lv, 2); v = r.choice(self.objvars)
            m.env[v] = m.env[s2]
            return "%s = second(%s, %s);" % (v, s1, s2)
        if k < 0.95:
            s = r.choice(lv)
            m.new("vmod")      # the local of the failing function
            return "begin z = failing(%s); exception when oops then nop; end;" % s
        if k < 0.975:
            v = r.choice(self.objvars); text, mod = self.ctor(); text2, mod2 = self.ctor()
            m.new(mod); ref = m.new(mod2); m.env[v] = ref
            return "for i in 1 to 2 loop %s = %s; if i == 1 then continue; end if; break; end loop;" % (v, "%s") % text if False else "%s = %s; %s = %s;" % (v, text, v, text2)
        tb = r.choice(self.tabs)
        kk0 = r.random()
        if kk0 < 0.15:
            # a temporary table of objects traversed by forall: its private copy (and the objects in it) dies with the loop
            n = r.randint(1, 3); text, mod = self.ctor()
            for _ in range(n): m.new(mod)
            return "forall e in tab(%d, %s) loop z = e.ping(); %s end loop;" % (n, text, r.choice(["", "break;", "continue;"]))
        if kk0 < 0.3 and lv:
            # the first item appended to a null table is a copy of the variable's reference
            s = r.choice(lv); m.env[tb] = [m.env[s]]
            if r.random() < 0.5:
                s2 = r.choice([v for v in lv if m.env[v][1] == m.env[s][1]]); m.env[tb].append(m.env[s2])
                return "%s = tab(); %s.concat(%s); %s.concat(%s);" % (tb, tb, s, tb, s2)
            return "%s = tab(); %s.concat(%s);" % (tb, tb, s)
        if isinstance(m.env.get(tb), list) and m.env[tb]:
            same = [v for v in lv if m.env[v][1] == m.env[tb][0][1]]
            kk = r.random()
            if kk < 0.35 and same:
                # the iterator *is* the element: assigning a variable to it stores another reference to the variable's object
                s = r.choice(same); m.env[tb] = [m.env[s]] * len(m.env[tb])
                return "forall e in %s loop e = %s; end loop;" % (tb, s)
            if kk < 0.5:
                first = m.env[tb][0]; m.env[tb] = [first] * len(m.env[tb])
                return "forall e in %s loop e = %s.at(0); end loop;" % (tb, tb)
            if kk < 0.6 and isinstance(m.env.get("r"), list) and m.env["r"][0][1] == m.env[tb][0][1]:
                m.env[tb] = [m.env["r"][0]] * len(m.env[tb])
                return "forall e in %s loop e = r@1; end loop;" % tb
            return "forall e in %s loop z = e.ping(); end loop;" % tb
        return "nop;"

    def pings(self):
        """probe statement: ping through every reachable variable reference; returns (text, expected list of (mod, serial))"""
        parts = []; exp = []
        for v in self.objvars:
            ref = self.m.env.get(v)
            if isinstance(ref, tuple):
                parts.append("z = %s.ping();" % v); exp.append((ref[1], ref[2]))
        for tb in self.tabs:
            lst = self.m.env.get(tb)
            if isinstance(lst, list):
                for i, ref in enumerate(lst):
                    parts.append("z = %s.at(%d).ping();" % (tb, i)); exp.append((ref[1], ref[2]))
        if isinstance(self.m.env.get("r"), list):
            ref = self.m.env["r"][0]
            parts.append("z = r@1.ping();"); exp.append((ref[1], ref[2]))
        return " ".join(parts) if parts else "nop;", exp


class Sh:
    def __init__(self, desc):
        self.desc = desc; self.res = new_result()
        self.rnd = random.Random("%s-c17-%s" % (desc["seed"], desc["k"]))
        self.work = tempfile.mkdtemp(prefix="c17_")
        self.log = os.path.join(self.work, "vmod.log")
        self.tomb = desc["mode"] == "tombstone"
        self.probe = Probe("asan", modules=True, extra_env={"VMOD_LOG": self.log, "VMOD_TOMBSTONE": "1" if self.tomb else "0"}, timeout=60)

    def viol(self, cls, what, wit):
        add_violation(self.res, "C17|" + cls, what, wit)

    def one(self):
        r = self.rnd
        g = Gen(r)
        steps = []
        n = r.randint(4, 14)
        for i in range(n):
            text = g.step()
            reach = set(g.m.reachable())
            ptext, pexp = g.pings()
            steps.append((text, reach, ptext, pexp))
        open(self.log, "w").close()
        pre = "import vmod;\nimport vmod2;\n" + FUNCS
        ops = ["new A 1", "parse A PRE %s" % hx(pre), "run A PRE 1000"]
        for i, (text, reach, ptext, pexp) in enumerate(steps):
            ops += ["vmodmark", "parse A S%d %s" % (i, hx(text)), "run A S%d 20000" % i, "vmodmark", "parse A Q%d %s" % (i, hx(ptext)), "run A Q%d 20000" % i]
        # release sequence
        rel = r.choice(["free-ctx-first", "free-progs-first", "purge-then-free", "clone-then-free-original", "clone-run-free", "clone-read-free"])
        if rel == "clone-read-free" and not g.live_vars(): rel = "clone-then-free-original"
        ops.append("vmodmark")
        if rel == "clone-read-free":
            # the clone only READS the variables it inherited (plain copies into other variables), then every reference is probed in the
            # clone and in the original: reading must not consume the inherited variable
            lv = g.live_vars(); s1 = r.choice(lv); s2 = r.choice(lv)
            reader = "c = %s; d = %s;" % (s1, s2)
            saved = dict(g.m.env)
            g.m.env["c"] = g.m.env[s1]
            g.m.env["d"] = g.m.env[s2]        # sequential: s2 may be c
            ptb, pexp_b = g.pings()
            g.m.env = saved
            ops += ["clone A B", "parse B RB %s" % hx(reader), "run B RB 100", "vmodmark", "parse B QB %s" % hx(ptb), "run B QB 20000", "vmodmark",
                    "parse A QA %s" % hx(steps[-1][2]), "run A QA 20000", "free B", "free A"]
        if rel == "clone-read-free": pass
        elif rel == "clone-then-free-original": ops += ["clone A B", "free A", "vmodmark", "parse B QB %s" % hx(steps[-1][2]), "run B QB 20000", "free B"]
        elif rel == "clone-run-free": ops += ["clone A B", "parse B QB %s" % hx("a = null; b = null; t = null;"), "run B QB 100", "vmodmark", "parse A QA %s" % hx(steps[-1][2]), "run A QA 20000", "free B", "free A"]
        elif rel == "purge-then-free": ops += ["purge A", "free A"]
        elif rel == "free-progs-first":
            ops += ["freep S%d" % i for i in range(len(steps))] + ["freep Q%d" % i for i in range(len(steps))] + ["free A"]
        else: ops += ["free A"]
        ops.append("reset")
        rr = self.probe.case(ops)
        self.res["evaluations"] += 1
        program = pre + "\n".join(s[0] for s in steps)
        wit = {"ops": ops, "program": program, "release": rel}
        if rr.crashed:
            bump(self.res, "worker_crashes")
            add_violation(self.res, "C17|crash:%s" % rr.sig, "object program crashed (%s mode, release %s): %s" % (self.desc["mode"], rel, rr.sig), dict(wit, report=rr.report[-3000:])); return
        if rr.timeout:
            self.res["inconclusive"] += 1; return
        rep = rr.replies
        for i, x in enumerate(rep):
            if x.startswith("perr") or x.startswith("rerr") or x.startswith("foreign"):
                self.viol("program-failed", "step `%s` failed: %s" % (ops[i][:80], x[:120]), wit); return
        lines = open(self.log).read().splitlines()
        # split the log into phases at MARK
        phases = [[]]
        for l in lines:
            if l == "MARK": phases.append([])
            else: phases[-1].append(l)
        # ids: map (module, model serial) <-> module id via creation order
        base = {}
        created = {"vmod": [], "vmod2": []}
        for l in lines:
            f = l.split()
            if f[0] == "C": created[f[1]].append(int(f[2]))
        model_created = {"vmod": [c for c in g.m.created if c[1] == "vmod"], "vmod2": [c for c in g.m.created if c[1] == "vmod2"]}
        for mod in ("vmod", "vmod2"):
            if len(created[mod]) != len(model_created[mod]):
                self.viol("create-count|%s" % mod, "%d %s objects created, the model predicts %d constructor evaluations" % (len(created[mod]), mod, len(model_created[mod])), wit); return
        idof = {}
        for mod in ("vmod", "vmod2"):
            for ref, oid in zip(model_created[mod], created[mod]): idof[(mod, ref[2])] = oid
        destroyed = {}
        for pi, ph in enumerate(phases):
            for l in ph:
                f = l.split()
                if f[0] == "DD":
                    self.viol("double-destroy", "object %s %s handed to the destructor twice" % (f[1], f[2]), wit); return
                if f[0] == "D":
                    key = (f[1], f[2])
                    if key in destroyed:
                        self.viol("double-destroy", "object %s %s destroyed twice" % key, wit); return
                    destroyed[key] = pi
                if f[0] == "M" and ("STALE" in f or "FOREIGN" in f):
                    self.viol("method-on-%s-object" % ("dead" if "STALE" in f else "foreign"), "`%s`" % l, wit); return
        # statement-granular early-destroy check: phases are [pre][S0][Q0][S1][Q1]...; phase index of S_i is 1 + 2*i
        for i, (text, reach, ptext, pexp) in enumerate(steps):
            ph = 1 + 2 * i
            for ref in reach:
                oid = idof[(ref[1], ref[2])]
                dp = destroyed.get((ref[1], str(oid)))
                if dp is not None and dp <= ph + 1:
                    self.viol("destroyed-while-reachable", "object %s #%d (model serial %d) destroyed in phase %d although still reachable after statement %d `%s`" % (ref[1], oid, ref[2], dp, i, text), wit); return
            # the pings of Q_i reached exactly the expected objects, in order
            got = []
            for l in phases[ph + 1] if ph + 1 < len(phases) else []:
                f = l.split()
                if f[0] == "M" and f[3].startswith("ping"): got.append((f[1], int(f[2])))
            want = [(mod, idof[(mod, ser)]) for mod, ser in pexp]
            if got != want:
                self.viol("wrong-receiver", "after `%s` the probes reached %s, the model expects %s" % (text, got[:6], want[:6]), wit); return
        if rel == "clone-read-free":
            # phases after the statements: [release: clone + reader][probes in the clone][probes in the original + frees]
            R = 1 + 2 * len(steps)
            for who, ph, pexp in (("clone", R + 1, pexp_b), ("original", R + 2, steps[-1][3])):
                got = []
                for l in phases[ph] if ph < len(phases) else []:
                    f = l.split()
                    if f[0] == "M" and f[3].startswith("ping"): got.append((f[1], int(f[2])))
                want = [(mod, idof[(mod, ser)]) for mod, ser in pexp]
                if got != want:
                    self.viol("clone-read|wrong-receiver", "after the clone ran `%s` (plain reads of inherited variables) the probes in the %s reached %s, the model expects %s" % (reader, who, got[:6], want[:6]), wit); return
            bump(self.res, "clone_read_scenarios")
        # final balance
        for mod in ("vmod", "vmod2"):
            for oid in created[mod]:
                if (mod, str(oid)) not in destroyed:
                    self.viol("never-destroyed|%s" % rel, "object %s #%d was never handed to the destructor (release: %s)" % (mod, oid, rel), wit); return
        # method arguments are the values the script supplied
        if len(g.m.created) >= 3 and steps[-1][1]:
            self.res["nontrivial"].add(case_hash(program))
        bump(self.res, "objects_created", len(g.m.created)); bump(self.res, "objects_destroyed", len(destroyed)); bump(self.res, "ping_probes", sum(len(s[3]) for s in steps))
        if len(self.res["samples"]) < 2:
            self.res["samples"].append({"program": [s[0] for s in steps], "release": rel, "created": len(g.m.created), "log_head": lines[:6]})

    def args(self):
        """methods receive exactly the argument values the script supplied"""
        cases = [("echoi", "i:%d", [0, -1, 255, 2 ** 63 - 1, -2 ** 63 + 1]), ("echos", None, ["", "abc", "q\"uote", "x" * 300]), ("echon", None, [0.5, -2.25, 1e300]), ("echob", None, [True, False])]
        open(self.log, "w").close()
        text = "import vmod;\na = vmod(1);\n"
        exp = []
        for m, fmt, vals in cases:
            for v in vals:
                if m == "echoi": lit = str(v) if v >= 0 else "(%d)" % v; exp.append("i:%d" % v)
                elif m == "echos": lit = '"%s"' % v.replace('"', '""'); exp.append("s:" + (v.encode().hex() if v else "-"))
                elif m == "echon": lit = repr(v); exp.append("n:%016x" % d2bits(v))
                else: lit = "true" if v else "false"; exp.append("b:1" if v else "b:0")
                text += "x = a.%s(%s);\n" % (m, lit)
        text += 'y = a.args3(7, "seven", 7.5); z = a.echoi(int()); w = a.echos(str());\n'
        exp += ["i:7 s:736576656e n:401e000000000000", "null", "null"]
        ops = ["new A 1", "parse A P %s" % hx(text), "run A P 1000", "free A", "reset"]
        rr = self.probe.case(ops)
        self.res["evaluations"] += 1
        if rr.crashed or not rr.replies[2].startswith("ok"):
            self.viol("args-program-failed", "argument program failed: %s %s" % (rr.sig, rr.replies[1:3]), {"ops": ops, "program": text}); return
        got = [" ".join(l.split()[4:]) for l in open(self.log).read().splitlines() if l.startswith("M ")]
        if got != exp:
            n = 0
            while n < len(got) and n < len(exp) and got[n] == exp[n]: n += 1
            self.viol("argument-values", "method call #%d received `%s`, the script supplied `%s`" % (n, got[n] if n < len(got) else None, exp[n] if n < len(exp) else None), {"ops": ops, "program": text})
        else:
            self.res["nontrivial"].add(case_hash(["args", self.desc["mode"]]))

    def scenarios(self):
        """hand-written shapes a random walk rarely produces; judged by the log invariants only"""
        pre = "import vmod;\nimport vmod2;\n" + FUNCS + "function two(p:vmod, n:integer) return integer is begin return n; end;\n"
        S = [
            # (program, number of objects created per module or None, may fail with a BLOC error)
            ("a = vmod(1); for i in 1 to 2 loop z = a.ping(); a = vmod2(2); end loop;", None, True),
            ("a = vmod(1); b = vmod2(2); for i in 1 to 3 loop z = a.id(); c = a; a = b; b = c; end loop;", None, True),
            ("a = vmod(1); z = two(a, 1); begin z = two(a, 1 / 0); exception when divide_by_zero then nop; end; z = two(a, 2); a = null;", {"vmod": 1, "vmod2": 0}, False),
            ("a = vmod(1); z = two(a, 1); begin z = two(vmod(2), 1 / 0); exception when divide_by_zero then nop; end; begin z = two(vmod(3), int(\"x\")); exception when others then nop; end; a = null;", {"vmod": 3, "vmod2": 0}, True),
            ("a = vmod(1); t = tab(70000, a); b = a; b = null; z = a.ping(); c = t.at(69999); z = c.ping(); t = null; z = a.ping();", {"vmod": 1, "vmod2": 0}, False),
            ("a = vmod(1); t = tab(65535, a); b = a; c = a; b = null; c = null; z = a.ping(); z = t.at(0).ping();", {"vmod": 1, "vmod2": 0}, False),
            ("a = vmod(1); t = tab(300, a); u = tab(300, t); z = u.at(299).at(299).ping(); u = null; z = a.ping(); t = null; z = a.ping();", {"vmod": 1, "vmod2": 0}, False),
            ("a = vmod(666);", {"vmod": 0, "vmod2": 0}, True),
            ("begin a = vmod(1); z = a.fail(); exception when others then nop; end; z = a.ping();", {"vmod": 1, "vmod2": 0}, True),
            ("a = vmod(1); b = a.settag(5); c = b.settag(6); a = null; z = c.ping(); b = null; z = c.tag();", {"vmod": 1, "vmod2": 0}, False),
            ("a = vmod(vmod(1)); z = a.ping();", {"vmod": 2, "vmod2": 0}, False),
            ("a = vmod(1); r = tup(a, a, 1); b = r@2; r = null; a = null; z = b.ping();", {"vmod": 1, "vmod2": 0}, False),
            ("t = tab(3, vmod(1)); forall e in t loop e = vmod(2); end loop; z = t.at(2).ping();", {"vmod": 6, "vmod2": 0}, False),
            # collections abandoned half-built: an opaque item function yields objects first and a value of another type (or an error) later
            (FLIP + "c = vmod(0); begin t = tab(2, flip(c, 1)); exception when others then nop; end; z = c.ping();", {"vmod": 2, "vmod2": 0}, True),
            (FLIP + "c = vmod(0); t = tab(3, flip(c, 2)); z = c.ping();", {"vmod": 3, "vmod2": 0}, True),
            (FLIP + "c = vmod(0); begin t = tab(4, flip(c, 9)); u = tab(3, flip(c, 5)); exception when others then nop; end; z = t.at(3).ping();", {"vmod": 6, "vmod2": 0}, True),
            (FLIP + "c = vmod(0); begin r = tup(vmod(2), flip(c, 1), 1 / 0); exception when others then nop; end; z = c.ping();", {"vmod": 3, "vmod2": 0}, True),
            (FLIP + "c = vmod(0); t = tab(1, vmod(3)); begin t.concat(flip(c, 0)); exception when others then nop; end; begin t.insert(0, tab(2, flip(c, 2))); exception when others then nop; end; z = t.at(0).ping();", None, True),
            ("function deep(n:integer, p:vmod) return vmod is begin if n <= 0 then return p; end if; return deep(n - 1, p); end; a = deep(50, vmod(1)); z = a.ping();", {"vmod": 1, "vmod2": 0}, False),
        ]
        for text, counts, mayfail in S:
            for rel in ("free", "purge-free", "clone-free-original"):
                open(self.log, "w").close()
                ops = ["new A 1", "parse A PRE %s" % hx(pre), "run A PRE 1000", "parse A P %s" % hx(text), "run A P 2000000"]
                if rel == "purge-free": ops += ["purge A", "free A"]
                elif rel == "clone-free-original": ops += ["clone A B", "free A", "free B"]
                else: ops += ["free A"]
                ops.append("reset")
                rr = self.probe.case(ops)
                self.res["evaluations"] += 1; bump(self.res, "scenarios")
                wit = {"ops": ops, "program": pre + text, "release": rel}
                if rr.crashed:
                    bump(self.res, "worker_crashes")
                    add_violation(self.res, "C17|scenario|crash:%s" % rr.sig, "`%s` crashed (%s mode, %s): %s" % (text[:100], self.desc["mode"], rel, rr.sig), dict(wit, report=rr.report[-3000:])); continue
                rep = rr.replies
                if not rep[3].startswith("ok") or (not mayfail and not rep[4].startswith("ok")):
                    self.viol("scenario|program-failed", "`%s`: %s / %s" % (text[:100], rep[3][:80], rep[4][:80]), wit); continue
                lines = open(self.log).read().splitlines()
                created = {}; destroyed = {}; bad = None
                for n_, l in enumerate(lines):
                    f = l.split()
                    if f[0] == "C": created[(f[1], f[2])] = n_
                    elif f[0] == "D":
                        if (f[1], f[2]) in destroyed: bad = ("double-destroy", l)
                        destroyed[(f[1], f[2])] = n_
                    elif f[0] == "DD": bad = ("double-destroy", l)
                    elif f[0] == "M":
                        if "STALE" in f: bad = ("method-on-dead-object", l)
                        if "FOREIGN" in f: bad = ("method-on-foreign-object", l)
                        if (f[1], f[2]) in destroyed: bad = ("method-after-destroy", l)
                        if (f[1], f[2]) not in created and f[2] != "null": bad = ("method-on-unknown-object", l)
                if bad:
                    self.viol("scenario|" + bad[0], "`%s` (%s): %s" % (text[:120], rel, bad[1]), wit); continue
                missing = [k for k in created if k not in destroyed]
                if missing:
                    self.viol("scenario|never-destroyed", "`%s` (%s): %d object(s) never destroyed, e.g. %s" % (text[:120], rel, len(missing), missing[0]), wit); continue
                if counts is not None:
                    got = {"vmod": sum(1 for k in created if k[0] == "vmod"), "vmod2": sum(1 for k in created if k[0] == "vmod2")}
                    if got != counts and rep[4].startswith("ok"):
                        self.viol("scenario|create-count", "`%s`: created %s, expected %s" % (text[:120], got, counts), wit); continue
                self.res["nontrivial"].add(case_hash(["scn", text, rel, self.desc["mode"]]))

    def run(self):
        n = 600 if self.desc["tier"] == "quick" else 12000
        try:
            self.args()
            if self.desc["k"] < 2:
                self.scenarios()
            for _ in range(n):
                self.one()
                if self.res["counters"].get("worker_crashes", 0) > CRASH_BUDGET: break
        finally:
            self.probe.close()
            shutil.rmtree(self.work, ignore_errors=True)
        return self.res


def plan(tier, seed):
    return [{"k": k, "n": 16, "seed": seed, "tier": tier, "mode": "tombstone" if k % 2 == 0 else "real-free"} for k in range(16)]


def run_shard(desc):
    return Sh(desc).run()


def replay(wit):
    print(wit["witness"].get("program", ""))
    p = Probe("asan", modules=True, extra_env={"VMOD_TOMBSTONE": "1", "VMOD_LOG": "/dev/stderr"})
    r = p.case(wit["witness"]["ops"])
    if r.crashed: print(r.report[:3000])
    p.close()
    return 1 if r.crashed else 0
