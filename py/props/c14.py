"""C14 — cloned contexts are independent, also when run concurrently on several threads.

Every scenario (original O: functions + variables; programs compiled in O; 1..8 clones, each running a list of
the shared compiled programs; optional redefinitions/assignments made in one clone or in O after cloning; O
kept, purged or freed) is executed by harness/vthreads

  * concurrently (one thread per clone, the original on the main thread) under ThreadSanitizer and under
    ASan+UBSan, several times with seeded yields injected at statement boundaries by the step hook, and
  * each body alone in a *twin* process where the original itself runs that body's programs (no clone, no
    thread): a clone "starts with copies of the original's variables and function declarations", so what a
    clone computes, prints and leaves in its variables must be what the original would have computed.

Oracles: (1) per body: results, returned values, output bytes and the variable/function dump equal the twin's;
(2) the original's dump and output are untouched by what the clones did; (3) no ThreadSanitizer report with a
frame in /repo; (4) no ASan/UBSan report, no crash; (5) every context is released at the end (live == 0).
When (1) fails the scenario is re-run sequentially to tell a copy/independence defect from a race."""
import os, random, re, subprocess, tempfile
from vlib import *
import model_lang as ml

PROPERTY = "C14"
LEVEL = "exploration"
FLAVORS = ["asan", "tsan"]
RULE = ("one evaluation = one execution of a scenario by vthreads (concurrent under TSan, concurrent under ASan+UBSan, or a single-context twin), "
        "a scenario = original + compiled programs + 1..8 clones with a program list each (+ redefinitions after cloning, + original kept/purged/"
        "freed); non-trivial = a concurrent execution in which at least two threads executed statements and every body was compared with its "
        "twin; distinct = distinct (scenario text, interleaving signature) pairs; the interleaving signature is the hash of the sequence of "
        "thread switches observed at statement boundaries by the step hook (global relaxed counter, per-thread logs merged after join)")
ASSUMPTIONS = ["ThreadSanitizer (gcc 12) sees the synchronisation the library uses (none: clones share only immutable compiled code); every clone has its own "
               "output descriptor so stdio locks are never the shared object", "the twin (the original running the same programs) defines the expected behaviour of a clone",
               "programs are compiled before the clones are taken (documented precondition of running a program in another context)",
               "random() is exercised for the race detector only; programs using it are not value-compared"]
INCONCLUSIVE_CAP = 0.05

TSAN_OPTS = "halt_on_error=0 exitcode=66 report_signal_unsafe=0 history_size=4 second_deadlock_stack=1"


def scen_text(sc, mode="conc", api="cpp", yseed=1, yprob=0, twin_of=None):
    """twin_of = None: the scenario itself; otherwise index of the body (-1 = original) whose programs the original runs alone"""
    L = ["INIT " + hx(sc["init"])] + ["PROG " + hx(p) for p in sc["progs"]]
    if twin_of is None:
        for k, t in enumerate(sc["threads"]): L.append("THREAD " + ",".join(map(str, t)))
        for k, txt in sc["pre"]: L.append("PRE %d %s" % (k, hx(txt)))
        if sc["oprog"] and sc["origin"] == "keep": L.append("OPROG " + ",".join(map(str, sc["oprog"])))
        L += ["ORIGIN " + sc["origin"], "MODE " + mode, "API " + api, "YIELD %d %d" % (yseed, yprob), "FREE " + sc["free"]]
        if sc.get("chain"): L.append("CHAIN 1")
    else:
        for k, txt in sc["pre"]:
            if k == twin_of: L.append("PRE -1 " + hx(txt))
        progs = sc["oprog"] if twin_of == -1 else sc["threads"][twin_of]
        if progs: L.append("OPROG " + ",".join(map(str, progs)))
        L += ["ORIGIN keep", "MODE seq", "API " + api]
    L.append("BUDGET 60000")
    return "\n".join(L) + "\n"


class Run:
    pass


def run_vthreads(flavor, text, timeout=120):
    bdir = build(flavor)
    env = dict(os.environ)
    env["LD_LIBRARY_PATH"] = os.path.join(bdir, "libonly")
    env["TSAN_OPTIONS"] = TSAN_OPTS
    env["ASAN_OPTIONS"] = ASAN_OPTS
    env["UBSAN_OPTIONS"] = UBSAN_OPTS
    r = Run(); r.timeout = False
    try:
        p = subprocess.run([os.path.join(bdir, "harness", "vthreads")], input=text.encode("latin-1"), capture_output=True, env=env, timeout=timeout)
    except subprocess.TimeoutExpired:
        r.timeout = True; return r
    r.rc = p.returncode
    r.out = p.stdout.decode("latin-1"); r.err = p.stderr.decode("utf-8", "replace")
    r.done = "\nDONE" in "\n" + r.out
    r.bodies = {}; r.sig = None; r.switches = 0; r.steps = 0; r.live = None; r.o_dump0 = None; r.progres = []; r.initres = None; r.pre = []
    for line in r.out.splitlines():
        f = line.split(" ")
        if f[0] in ("T", "O"):
            key = int(f[1]) if f[0] == "T" else -1
            rest = f[2:] if f[0] == "T" else f[1:]
            b = r.bodies.setdefault(key, {"res": [], "out": None, "dump": None})
            if rest[0] == "RES": b["res"].append(" ".join(rest[1:]))
            elif rest[0] == "OUT": b["out"] = rest[1]
            elif rest[0] == "DUMP": b["dump"] = rest[1:]
            elif rest[0] == "DUMP0": r.o_dump0 = rest[1:]
        elif f[0] == "SIG":
            r.sig = f[1]; kw = dict(x.split("=") for x in f[2:]); r.switches = int(kw["switches"]); r.steps = int(kw["steps"])
        elif f[0] == "LIVE": r.live = int(f[1])
        elif f[0] == "PROGRES": r.progres.append(" ".join(f[2:]))
        elif f[0] == "INITRES": r.initres = " ".join(f[1:])
        elif f[0] == "PRERES": r.pre.append(" ".join(f[1:]))
    return r


_TS_BLOCK = re.compile(r"WARNING: ThreadSanitizer: ([^\n(]*)[^\n]*\n(.*?)(?=\n==================|\Z)", re.S)
_TS_FRAME = re.compile(r"#\d+ (.+?) (/[^\s:]+):(\d+)")


def tsan_reports(err):
    """[(signature, text)] for reports that have a frame inside /repo; signature = kind | first in-repo frame of each stack"""
    out = []
    for m in _TS_BLOCK.finditer(err):
        kind = m.group(1).strip(); body = m.group(2)
        stacks = re.split(r"\n\s*\n", body)
        tops = []
        for st in stacks[:2]:
            top = None
            for fm in _TS_FRAME.finditer(st):
                fn, path = fm.group(1), fm.group(2)
                if path.startswith("/repo/"):
                    top = re.sub(r"\(.*$", "", fn).strip() + "@" + os.path.basename(path); break
            tops.append(top or "-")
        if all(t == "-" for t in tops):
            continue
        out.append(("%s|%s" % (kind, "|".join(sorted(set(tops)))), m.group(0)[:3000]))
    return out


def strip_bodies(dump):
    out = []
    for e in dump:
        if e.startswith("F:"):
            p = e.split(":"); out.append(":".join(p[:3]))
        else:
            out.append(e)
    return out


def same_dump(a, b, bodies):
    if a is None or b is None: return a == b
    if not bodies: return strip_bodies(a) == strip_bodies(b)
    return a == b


def first_diff(a, b):
    a = a or []; b = b or []
    for i in range(max(len(a), len(b))):
        x = a[i] if i < len(a) else "<missing>"; y = b[i] if i < len(b) else "<missing>"
        if x != y:
            def show(e):
                p = e.split(":")
                if p[0] == "V" and len(p) >= 5: return "%s = %s" % (unhx(p[1]).decode("latin-1"), ":".join(p[4:])[:80])
                if p[0] == "F": return "function %s/%s %s" % (unhx(p[1]).decode("latin-1"), p[2], (unhx(p[3]).decode("latin-1")[:80] if len(p) > 3 and p[3] not in ("-", "NULLBODY") else ""))
                return e[:80]
            return "%s vs %s" % (show(x), show(y))
    return "?"


# ------------------------------------------------------------------------------------------------ scenarios

TEMPLATES = [
    # nested calls, recursion, redefinition of the callee in one clone
    dict(init='function g(x:integer) return integer is begin return x * 10; end;\n'
              'function f(x:integer) return integer is begin return g(x) + 1; end;\n'
              'function fib(n:integer) return integer is begin if n < 2 then return n; end if; return fib(n-1) + fib(n-2); end;\n'
              'a = 5; s = "hello"; t = tab(3, 1); k = 0;',
         progs=['r1 = f(a); r2 = fib(9); print "r " r1 " " r2; for i in 1 to 15 loop k = k + f(i); end loop; print k;',
                'b = a + 1; d = a; u = s + "x"; v = s; t.concat(a); print b " " d " " u " " v " " t.count() " " a " " s;',
                'function h(x:integer) return integer is begin return f(x) + g(x); end; print h(a);'],
         redefs=['function g(x:integer) return integer is begin return x * 20; end;', 'a = 100; s = "changed";', 'function fib(n:integer) return integer is begin return 0 - n; end;']),
    # handlers: assignments inside a handler, return inside a handler, user errors with formatted text, unhandled errors
    dict(init='function chk(x:integer) return integer is begin if x > 3 then raise too_big; end if; return x; end;\n'
              'function safe(x:integer) return integer is begin begin return 100 / x; exception when divide_by_zero then e1 = 1; return -1; end; end;\n'
              'a = 0; n = 0; m = "none"; t = tab(2, 7);',
         progs=['for i in 1 to 6 loop begin n = n + chk(i); exception when too_big then m = "caught " + str(i); a = a + 1; end; end loop; print n " " a " " m;',
                'z = safe(a); y = safe(5); print z " " y; begin x = t.at(10); exception when others then m = "idx"; print "handled"; end; print m;',
                'n = n + 1; if n > 0 then raise fatal_thing; end if; print "not reached";',
                'begin x = 1 / a; print "quotient " x; exception when divide_by_zero then n = -5; return n; end; print "after";'],
         redefs=['function chk(x:integer) return integer is begin return x * 2; end;', 'a = 1; n = 1000;']),
    # tables / strings / in-place members / forall over inherited data, random() for the race detector
    dict(init='function fill(n:integer) return table is begin r = tab(0, 0); for i in 1 to n loop r.concat(i * i); end loop; return r; end;\n'
              'function join(x) return string is begin o = ""; forall e in x loop o = o + str(e) + ","; end loop; return o; end;\n'
              't = fill(5); s = "abc"; w = tab(2, "x"); c = 0;',
         progs=['forall e in t loop c = c + e; end loop; t.put(0, c); t.concat(fill(3)); s.concat("d"); w.insert(0, s); print join(t) " " s " " w.count();',
                'q = random(10); q = random(); u = join(fill(12)); print strlen(u); t.delete(0); print t.count();',
                'x = t; x.concat(99); y = s; y.concat("!"); print x.count() " " t.count() " " y " " s;'],
         redefs=['function join(x) return string is begin return "redefined"; end;', 't = tab(1, 42); s = "zz";']),
]


def gen_scenario(rnd, tier):
    sc = {"pre": [], "oprog": [], "origin": "keep", "free": rnd.choice(["progs-first", "ctx-first"]), "random": False}
    k = rnd.random()
    if k < 0.45:
        T = rnd.choice(TEMPLATES)
        sc["init"] = T["init"]; sc["progs"] = list(T["progs"]); redefs = T["redefs"]
        sc["random"] = "random(" in "".join(sc["progs"])
        sc["kind"] = "template"
    else:
        focus = rnd.choice(["functions", "errors", "loops", "functions"])
        g = ml.Gen(rnd, focus, nfuncs=rnd.randint(1, 3))
        funcs, prog = g.program(nstmts=0)
        if not any(f["name"] == "tmul" for f in funcs):     # programs with focus "errors" call it
            funcs.append({"name": "tmul", "params": ["z"], "ptypes": [None], "ret": "int", "order": 99, "body": [("return", ("bin", "*", ("var", "z"), ("int", 2)))]})
        inits = [s for s in prog if s[0] == "assign"]
        sc["init"] = ml.render(funcs, inits, rnd)
        sc["progs"] = []
        for _ in range(rnd.randint(1, 3)):
            body = ml.probe_program(rnd, funcs, rnd.choice(["functions", "errors", "loops"]), nstmts=rnd.randint(2, 5))
            sc["progs"].append(ml.render([], body, rnd))
        redefs = []
        for f in funcs:
            if f["ret"] == "int" and f["name"] != "tmul":
                nf = dict(f); nf["body"] = [("return", ("int", rnd.randint(100, 999)))]
                redefs.append("\n".join(ml.rfunc(nf, rnd)))
        redefs.append("a = 77; s = \"redef\"; t = tab(2, 9);")
        sc["kind"] = "generated-" + focus
    # type-constrained variables are part of what a clone inherits (value, type and constraint)
    sc["init"] += '\n$n = 10; $s = "fixed"; $t = tab(2, 1);\n'
    redefs = list(redefs) + ['$n = "ten";', '$s = 5;', '$n = 11; $s = "again"; $t.concat(3);', '$t = "not a table";']
    np = len(sc["progs"])
    nth = rnd.choice([2, 2, 3, 4, 4, 6, 8])
    same = rnd.random() < 0.5
    base = [rnd.randrange(np) for _ in range(rnd.randint(1, 3))]
    sc["threads"] = [list(base) if same else [rnd.randrange(np) for _ in range(rnd.randint(1, 3))] for _ in range(nth)]
    o = rnd.random()
    sc["origin"] = "keep" if o < 0.5 else ("purge" if o < 0.75 else "free")
    if sc["origin"] == "keep" and rnd.random() < 0.6:
        sc["oprog"] = [rnd.randrange(np) for _ in range(rnd.randint(1, 2))]
    if rnd.random() < 0.6 and redefs:
        for _ in range(rnd.randint(1, 2)):
            who = rnd.choice(list(range(nth)) + ([-1] if sc["origin"] == "keep" else []))
            sc["pre"].append((who, rnd.choice(redefs)))
    sc["api"] = rnd.choice(["cpp", "cpp", "c"])
    sc["chain"] = rnd.random() < 0.2
    return sc


class Sh:
    def __init__(self, desc):
        self.desc = desc; self.res = new_result()
        self.rnd = random.Random("%s-c14-%s" % (desc["seed"], desc["k"]))

    def viol(self, cls, what, sc, extra=None):
        w = {"scenario": sc}
        if extra: w.update(extra)
        add_violation(self.res, "C14|%s" % cls, what, w)

    def crash_or_timeout(self, r, label, sc, text):
        self.res["evaluations"] += 1
        if r.timeout:
            self.res["inconclusive"] += 1; bump(self.res, "timeouts"); return True
        if not r.done:
            sig = sig_of_report(r.err) or "died:rc=%s" % r.rc
            bump(self.res, "crashes")
            self.viol("crash:%s" % sig, "%s: %s" % (label, sig), sc, {"input": text, "report": r.err[-4000:]}); return True
        if any(x.startswith("perr") for x in r.progres) or (r.initres or "").startswith("perr"):
            raise HarnessFailure("C14 generated text refused by the parser: %s / %s\n%s" % (r.initres, r.progres, sc))
        return False

    def compare(self, run, twins, sc, mode):
        """-> list of (class, description) for bodies that differ from their twin"""
        bad = []
        keep = sc["origin"] == "keep"
        for key, b in sorted(run.bodies.items()):
            if key == -1 and not keep:
                continue
            tw = twins.get(key)
            if tw is None: continue
            tb = tw.bodies.get(-1, {"res": [], "out": "-", "dump": None})
            who = "original" if key == -1 else "clone %d" % key
            # texts parsed and run in this body after cloning (redefinitions, assignments to constrained variables) are accepted or refused as in the twin
            mine = [x.split(" ", 1)[1] for x in run.pre if x.split(" ", 1)[0] == str(key)]
            theirs = [x.split(" ", 1)[1] for x in tw.pre if x.split(" ", 1)[0] == "-1"]
            if mine != theirs:
                bad.append(("pre", "%s: texts parsed after cloning answered %r, the original alone answers %r" % (who, [m[:60] for m in mine], [t[:60] for t in theirs]))); continue
            if b["res"] != tb["res"]:
                bad.append(("results", "%s: results %r, the original alone gives %r" % (who, [x[:60] for x in b["res"]], [x[:60] for x in tb["res"]])))
            elif b["out"] != tb["out"]:
                bad.append(("output", "%s printed %r, the original alone prints %r" % (who, unhx(b["out"])[:200], unhx(tb["out"])[:200])))
            elif not same_dump(b["dump"], tb["dump"], keep):
                A = b["dump"] if keep else strip_bodies(b["dump"]); B = tb["dump"] if keep else strip_bodies(tb["dump"])
                bad.append(("state", "%s: final variables/functions differ from the original running alone: %s" % (who, first_diff(A, B))))
        return bad

    def scenario(self):
        rnd = self.rnd
        sc = gen_scenario(rnd, self.desc["tier"])
        api = sc["api"]
        # twins (single context, no thread): expected behaviour of every body
        twins = {}
        keys = list(range(len(sc["threads"]))) + ([-1] if sc["origin"] == "keep" else [])
        cache = {}
        for key in keys:
            text = scen_text(sc, api=api, twin_of=key)
            if text not in cache:
                r = run_vthreads("asan", text)
                if self.crash_or_timeout(r, "twin (single context) of %s" % ("the original" if key == -1 else "clone %d" % key), sc, text):
                    return
                bump(self.res, "twin_runs")
                cache[text] = r
            twins[key] = cache[text]
        if any(any("intr=1" in x for x in t.bodies.get(-1, {"res": []})["res"]) for t in twins.values()):
            self.res["inconclusive"] += 1; bump(self.res, "scenarios_over_statement_budget"); return
        # the original must be untouched by clones unless it runs programs itself: its twin covers that (key -1)
        reps = self.desc["reps"]
        for flavor in ("tsan", "asan"):
            for rep in range(reps):
                yseed = rnd.randrange(1 << 30); yprob = rnd.choice([0, 30, 120, 400])
                text = scen_text(sc, "conc", api, yseed, yprob)
                run = run_vthreads(flavor, text)
                label = "%s scenario, %d clones, origin %s, api %s, %s" % (sc["kind"], len(sc["threads"]), sc["origin"], api, flavor)
                if self.crash_or_timeout(run, label, sc, text):
                    return
                bump(self.res, "concurrent_runs_" + flavor)
                bump(self.res, "statements_executed_concurrently", run.steps); bump(self.res, "thread_switches_observed", run.switches)
                if flavor == "tsan":
                    reps_ = tsan_reports(run.err)
                    for sig, txt in reps_[:4]:
                        self.viol("tsan:%s" % sig, "%s: ThreadSanitizer: %s" % (label, sig), sc, {"input": text, "report": txt})
                    if reps_:
                        bump(self.res, "tsan_reports", len(reps_)); return
                    if "ThreadSanitizer" in run.err and not reps_:
                        bump(self.res, "tsan_reports_outside_repo")
                        raise HarnessFailure("ThreadSanitizer report without a frame in /repo (harness race?):\n" + run.err[:3000])
                elif run.rc != 0 or "ERROR: AddressSanitizer" in run.err or "runtime error:" in run.err:
                    sig = sig_of_report(run.err) or "rc=%s" % run.rc
                    self.viol("crash:%s" % sig, "%s: %s" % (label, sig), sc, {"input": text, "report": run.err[-4000:]}); return
                if run.live != 0:
                    self.viol("contexts-left", "%s: %s contexts still alive after every context and program was released" % (label, run.live), sc, {"input": text}); return
                bad = [] if sc["random"] else self.compare(run, twins, sc, "conc")
                if bad:
                    # classify: does the sequential execution of the same scenario differ too?
                    seq = run_vthreads("asan", scen_text(sc, "seq", api))
                    self.res["evaluations"] += 1
                    sbad = self.compare(seq, twins, sc, "seq") if getattr(seq, "done", False) else [("?", "?")]
                    cls = "clone-differs" if sbad else "concurrent-differs"
                    self.viol("%s|%s" % (cls, bad[0][0]), "%s: %s%s" % (label, bad[0][1], " (also when the clones run one after the other)" if sbad else " (only when run concurrently)"), sc, {"input": text}); return
                if run.switches >= 2 and len(sc["threads"]) >= 2:
                    self.res["nontrivial"].add(case_hash([text.split("YIELD")[0], run.sig]))
                    self.res["nontrivial"].add("il:" + run.sig)
                bump(self.res, "bodies_compared_with_twin", 0 if sc["random"] else len(run.bodies))
        bump(self.res, "scenarios"); bump(self.res, "scenarios_origin_" + sc["origin"]); bump(self.res, "scenarios_api_" + api); bump(self.res, "scenarios_" + sc["kind"])
        if sc["pre"]: bump(self.res, "scenarios_with_redefinition_after_cloning")
        if len(self.res["samples"]) < 1:
            self.res["samples"].append({"init": sc["init"][:300], "programs": [p[:200] for p in sc["progs"]], "threads": sc["threads"], "origin": sc["origin"], "pre": sc["pre"][:2]})


def plan(tier, seed):
    n = 16
    return [{"k": k, "seed": seed, "tier": tier, "count": 5 if tier == "quick" else 60, "reps": 2 if tier == "quick" else 4} for k in range(n)]


def run_shard(desc):
    s = Sh(desc)
    for _ in range(desc["count"]):
        s.scenario()
        if s.res["counters"].get("crashes", 0) > 6: break
    return s.res


def evidence_extra(agg, tier):
    return {"distinct_interleavings": len([x for x in agg["nontrivial"] if isinstance(x, str) and x.startswith("il:")])}


def replay(wit):
    w = wit["witness"]
    text = w.get("input")
    if not text:
        print("no input recorded"); return 2
    print(text[:200])
    for k in ("init", "progs", "threads", "pre", "origin", "oprog"):
        print("%s: %s" % (k, w["scenario"].get(k)))
    rc = 0
    for flavor in ("tsan", "asan"):
        r = run_vthreads(flavor, text)
        print("== %s rc=%s done=%s" % (flavor, getattr(r, "rc", None), getattr(r, "done", None)))
        if not r.timeout:
            print(r.out[:3000]); print(r.err[:4000])
            if r.rc != 0: rc = 1
    return rc
