"""C03 — integer and decimal arithmetic is total and follows the manual for all operands.

Oracle: reference model (python ints modulo 2^64, IEEE doubles through the same libm via ctypes)
compared bit-exactly with values evaluated by the real interpreter; operands are bound through
variables bit-exactly and results read back bit-exactly (never through printing).  ASan+UBSan watch
every evaluation."""
import random, math, ctypes, ctypes.util
from vlib import *

PROPERTY = "C03"
LEVEL = "exploration"
RULE = ("one evaluation = one (operator, operand a, operand b, provenance) tuple evaluated by the real interpreter and "
        "compared bit-exactly with the reference model; non-trivial = the model predicted a concrete value or a documented "
        "error (not merely 'total'); distinct = distinct (operator, a, b, form) tuples: the lattice shards enumerate "
        "disjoint index ranges, random shards draw operands with the shard index forced into the low bits of a")
ASSUMPTIONS = ["python int arithmetic and struct float packing", "glibc libm pow/fmod (same library the interpreter links)",
               "gcc ASan/UBSan runtimes", "manual sections Arithmetic/Bitwise Operators, Coercions and Conversions"]

M64 = 1 << 64
IMIN = -(1 << 63)
IMAX = (1 << 63) - 1

_libm = ctypes.CDLL(ctypes.util.find_library("m"))
_libm.pow.restype = ctypes.c_double; _libm.pow.argtypes = [ctypes.c_double, ctypes.c_double]
_libm.fmod.restype = ctypes.c_double; _libm.fmod.argtypes = [ctypes.c_double, ctypes.c_double]


def s64(x):
    x &= M64 - 1
    return x - M64 if x >= (1 << 63) else x


def int_lattice():
    L = {0, 1, -1, 2, -2, 255, 256, -255, IMIN, IMIN + 1, IMAX, IMAX - 1, 3, 10, -10, 7, 63, 64, 65, -63, -64, -65}
    for k in (7, 8, 15, 16, 31, 32, 52, 53, 62, 63):
        for d in (-1, 0, 1):
            v = (1 << k) + d
            if IMIN <= v <= IMAX:
                L.add(v)
            if IMIN <= -v <= IMAX:
                L.add(-v)
    return sorted(L)


def dbl_lattice():
    nxt = math.nextafter
    vals = [0.0, -0.0, 5e-324, -5e-324, 2.2250738585072014e-308, -2.2250738585072014e-308, 1.0, -1.0, 0.1, 0.5, -0.5, 2.0, 3.0, -3.0,
            2.0 ** 53, 2.0 ** 53 + 2, 2.0 ** 53 - 1, -(2.0 ** 53), 2.0 ** 63, nxt(2.0 ** 63, math.inf), nxt(2.0 ** 63, 0.0),
            -(2.0 ** 63), nxt(-(2.0 ** 63), -math.inf), nxt(-(2.0 ** 63), 0.0), 1.7976931348623157e308, -1.7976931348623157e308,
            math.inf, -math.inf, math.nan, 1e10, 123456.789, -7.25, 2.0 ** 31, 2.0 ** 32, 2.0 ** 62, 4.5, 1e-10, 0.30000000000000004]
    return vals


INT_OPS = ["+", "-", "*", "/", "%", "**", "&", "|", "^", "<<", ">>"]
DEC_OPS = ["+", "-", "*", "/", "%", "**"]
UN_OPS = ["-", "~"]

# ---- reference model ---------------------------------------------------------------------------
# result: ("i", int) | ("n", bits or "nan" or ("zero")) | ("err", NAME) | ("total",) | ("any_of", [..])

def model_int(op, a, b):
    if op == "+": return ("i", s64(a + b))
    if op == "-": return ("i", s64(a - b))
    if op == "*": return ("i", s64(a * b))
    if op == "/":
        if b == 0: return ("err", "DIVIDE_BY_ZERO")
        q = abs(a) // abs(b)
        if (a < 0) != (b < 0): q = -q
        return ("i", s64(q))
    if op == "%":
        if b == 0: return ("err", "DIVIDE_BY_ZERO")
        r = abs(a) % abs(b)
        if a < 0: r = -r
        return ("i", s64(r))
    if op == "**":
        if b < 0: return ("total",)
        return ("i", s64(pow(a, b, M64)))
    if op == "&": return ("i", s64((a & (M64 - 1)) & (b & (M64 - 1))))
    if op == "|": return ("i", s64((a & (M64 - 1)) | (b & (M64 - 1))))
    if op == "^": return ("i", s64((a & (M64 - 1)) ^ (b & (M64 - 1))))
    if op in ("<<", ">>"):
        d = b if op == "<<" else -b   # positive d: towards the left
        if abs(d) >= 64: return ("i", 0)
        u = a & (M64 - 1)
        if d >= 0: return ("i", s64(u << d))
        return ("i", s64(u >> (-d)))
    raise ValueError(op)


def model_unary(op, a):
    if op == "-": return ("i", s64(-a))
    if op == "~": return ("i", s64(~a))


def _dres(x):
    if x != x: return ("n", "nan")
    if x == 0.0: return ("n", "zero")  # sign of zero results is not asserted (manual silent)
    return ("n", d2bits(x))


def model_dec(op, x, y):
    """x, y python floats (already converted operands)."""
    if op == "+": return _dres(x + y)
    if op == "-": return _dres(x - y)
    if op == "*": return _dres(x * y)
    if op == "/":
        if y == 0.0:
            # manual silent: DIVIDE_BY_ZERO (what the code does) or the IEEE result
            if x != x or x == 0.0: ieee = ("n", "nan")
            else: ieee = ("n", d2bits(math.copysign(math.inf, x) * math.copysign(1.0, y)))
            return ("any_of", [("err", "DIVIDE_BY_ZERO"), ieee])
        return _dres(x / y)
    if op == "%":
        if y == 0.0:
            return ("any_of", [("err", "DIVIDE_BY_ZERO"), ("n", "nan")])
        return _dres(_libm.fmod(x, y))
    if op == "**":
        return _dres(_libm.pow(x, y))
    raise ValueError(op)


def model_int_of_dec(d):
    if d != d or d in (math.inf, -math.inf) or not (-(2.0 ** 63) <= d < 2.0 ** 63):
        return ("err", "OUT_OF_RANGE")
    return ("i", int(d))


def matches(model, reply, E):
    """Compare one harness reply with a model result.  Returns None if fine, else a description."""
    head, pos, kw = rfields(reply)
    kind = model[0]
    if kind == "any_of":
        errs = [matches(m, reply, E) for m in model[1]]
        return None if any(e is None for e in errs) else "; ".join(errs)
    if head == "foreign":
        return "foreign exception %s" % unhx(pos[0]).decode()
    if head not in ("val", "rerr"):
        return "unexpected reply %s" % reply[:80]
    if kind == "total":
        return None
    if kind == "err":
        if head != "rerr":
            return "expected error %s, got %s" % (model[1], reply[:60])
        if int(pos[0]) != E[model[1]]:
            return "expected error %s(%d), got error %s (%s)" % (model[1], E[model[1]], pos[0], unhx(pos[1]).decode("latin-1"))
        return None
    if head == "rerr":
        return "expected value %s, got error %s (%s)" % (str(model), pos[0], unhx(pos[1]).decode("latin-1"))
    v = parse_value(pos[0])
    if kind == "i":
        if v[0] != "i":
            return "expected integer, got %s" % pos[0]
        if v[1] != model[1]:
            return "expected %d, got %d" % (model[1], v[1])
        return None
    if kind == "n":
        if v[0] != "n":
            return "expected decimal, got %s" % pos[0]
        if model[1] == "nan":
            d = bits2d(v[1])
            return None if d != d else "expected nan, got %r" % d
        if model[1] == "zero":
            return None if bits2d(v[1]) == 0.0 else "expected zero, got %r" % bits2d(v[1])
        if v[1] != model[1]:
            return "expected %r, got %r" % (bits2d(model[1]), bits2d(v[1]))
        return None
    return "bad model"


def opclass(op, a, b):
    """operand class used in violation signatures (stable, coarse)"""
    def c(x):
        if isinstance(x, float):
            if x != x: return "nan"
            if x in (math.inf, -math.inf): return "inf"
            if x == 0: return "0.0"
            if abs(x) >= 2.0 ** 63: return "|d|>=2^63"
            return "dec"
        if x == 0: return "0"
        if x == IMIN: return "INT64_MIN"
        if x == -1: return "-1"
        if x < 0: return "neg"
        return "pos"
    if op in ("<<", ">>") and not isinstance(b, float):
        return "%s,disp%s" % ("neg" if a < 0 else "nonneg", "<0" if b < 0 else (">=64" if b >= 64 else "0..63"))
    return "%s,%s" % (c(a), c(b) if b is not None else "-")


# ---- shards ------------------------------------------------------------------------------------

def plan(tier, seed):
    L = int_lattice()
    npairs = len(L) * len(L)
    shards = []
    NS = 12
    for k in range(NS):
        shards.append({"kind": "intlat", "k": k, "n": NS, "seed": seed, "tier": tier})
    shards.append({"kind": "shift", "seed": seed, "tier": tier})
    shards.append({"kind": "dec", "seed": seed, "tier": tier})
    shards.append({"kind": "intdec", "seed": seed, "tier": tier})
    shards.append({"kind": "catch", "seed": seed, "tier": tier})
    nrand = 12 if tier == "quick" else 32
    per = 12000 if tier == "quick" else 150000
    for k in range(nrand):
        shards.append({"kind": "rand", "k": k, "n": nrand, "seed": seed, "count": per, "tier": tier})
    return shards


def declare_ops(names_types):
    return ["new A 0"] + ["reg A %s %s" % (hx(n), t) for n, t in names_types]


class Shard:
    def __init__(self, desc):
        self.desc = desc
        self.res = new_result()
        self.res["nontrivial_count"] = 0
        self.probe = Probe("asan")
        self.E = errnos(self.probe)
        self.units = []

    def sample(self, s):
        if len(self.res["samples"]) < 2:
            self.res["samples"].append(s)

    def viol(self, op, a, b, form, why, ops):
        sig = "C03|%s|%s" % (op, opclass(op, a, b))
        add_violation(self.res, sig, "%s: %r %s %r (%s): %s" % (form, a, op, b, form, why), {"ops": ops, "op": op, "a": repr(a), "b": repr(b), "form": form})

    def crash(self, op, a, b, form, r, ops):
        sig = "C03|%s|%s|crash:%s" % (op, opclass(op, a, b), r.sig)
        add_violation(self.res, sig, "%s: %r %s %r crashed: %s" % (form, a, op, b, r.sig), {"ops": ops, "report": r.report[-3000:]})

    # -- one unit: set A,B then evaluate the pre-parsed expressions
    def pair_unit(self, prelude, a, b, encA, encB, exprs, models, form):
        ops = ["set A 41 %s" % encA, "set A 42 %s" % encB] + ["eval A %s" % e for e, _ in exprs]
        full = prelude + ops
        def check(replies, self=self):
            for (e, op), m, rep in zip(exprs, models, replies[2:]):
                self.res["evaluations"] += 1
                if m[0] != "total":
                    self.res["nontrivial_count"] += 1
                why = matches(m, rep, self.E)
                if why:
                    self.viol(op, a, b if op not in UN_OPS else None, form, why, full)
                bump(self.res, "evaluations_" + form)
            self.sample({"form": form, "a": repr(a), "b": repr(b), "ops": [op for _, op in exprs], "first_reply": replies[2][:60]})
        u = Unit(ops, check, (a, b, form))
        return u

    def on_crash(self, prelude, form):
        def f(u, r):
            self.res["evaluations"] += 1
            if u.check is None:
                add_violation(self.res, "C03|teardown|crash:%s" % r.sig, "crash at teardown " + str(u.desc), {"ops": prelude + u.ops, "report": r.report[-3000:]})
                return
            a, b, _ = u.desc
            # find which operator: re-run each eval separately in fresh cases (first few crashes only)
            if self.res["counters"].get("crashes", 0) >= 6:
                self.crash("?", a, b, form, r, prelude + u.ops); return
            for e in [o for o in u.ops if o.startswith("eval")]:
                r1 = self.probe.case(prelude + u.ops[:2] + [e])
                if r1.crashed:
                    op = self._expr_op.get(e.split()[2], "?")
                    self.crash(op, a, b, form, r1, prelude + u.ops[:2] + [e])
                    bump(self.res, "crashes")
        return f

    def run_int_pairs(self, pairs, form="var"):
        names = [("A", "i0"), ("B", "i0")]
        prelude = declare_ops(names)
        exprs = []
        self._expr_op = {}
        for i, op in enumerate(INT_OPS):
            prelude.append("pexpr A E%d %s" % (i, hx("a %s b" % op))); exprs.append(("E%d" % i, op)); self._expr_op["E%d" % i] = op
        for i, op in enumerate(UN_OPS):
            prelude.append("pexpr A U%d %s" % (i, hx("%s a" % op))); exprs.append(("U%d" % i, op)); self._expr_op["U%d" % i] = op
        units = []
        for a, b in pairs:
            models = [model_int(op, a, b) for op in INT_OPS] + [model_unary(op, a) for op in UN_OPS]
            units.append(self.pair_unit(prelude, a, b, enc_int(a), enc_int(b), exprs, models, form))
        run_units(self.probe, prelude, units, self.res, self.on_crash(prelude, form), chunk=150)

    def run_literal_side(self, pairs):
        """a OP <literal b> and <literal a> OP b, for non-negative literals (a negative literal is unary minus)"""
        for a, b in pairs:
            ops = ["new A 0", "set A 41 %s" % enc_int(a), "set A 42 %s" % enc_int(b)]
            checks = []
            for op in INT_OPS:
                if b >= 0:
                    ops.append("pexpr A E %s" % hx("a %s %d" % (op, b))); ops.append("eval A E"); checks.append((op, model_int(op, a, b), "lit-right"))
                if a >= 0:
                    ops.append("pexpr A E %s" % hx("%d %s b" % (a, op))); ops.append("eval A E"); checks.append((op, model_int(op, a, b), "lit-left"))
            if not checks:
                continue
            r = self.probe.case(ops)
            if r.crashed:
                self.res["evaluations"] += 1
                k = (len(r.replies) - 3) // 2
                op = checks[min(max(k, 0), len(checks) - 1)][0]
                self.crash(op, a, b, "literal", r, ops); continue
            reps = r.replies[3:]
            for j, (op, m, form) in enumerate(checks):
                self.res["evaluations"] += 1
                if m[0] != "total": self.res["nontrivial_count"] += 1
                bump(self.res, "evaluations_literal")
                prs = reps[2 * j]
                if not prs.startswith("ok"):
                    self.viol(op, a, b, form, "literal form rejected by the parser: " + prs[:80], ops); continue
                if "type=i0" not in prs and m[0] == "i":
                    self.viol(op, a, b, form, "static type of int OP int is not integer: " + prs, ops)
                why = matches(m, reps[2 * j + 1], self.E)
                if why:
                    self.viol(op, a, b, form, why, ops)

    def run_dec_pairs(self, pairs, mixed):
        """pairs of (x, y) where each is float or int; at least one float"""
        groups = {}
        for x, y in pairs:
            groups.setdefault((isinstance(x, float), isinstance(y, float)), []).append((x, y))
        for (fx, fy), ps in groups.items():
            names = [("A", "n0" if fx else "i0"), ("B", "n0" if fy else "i0")]
            prelude = declare_ops(names)
            exprs = []; self._expr_op = {}
            for i, op in enumerate(DEC_OPS):
                prelude.append("pexpr A E%d %s" % (i, hx("a %s b" % op))); exprs.append(("E%d" % i, op)); self._expr_op["E%d" % i] = op
            un = []
            if fx:
                prelude.append("pexpr A U0 %s" % hx("- a")); exprs.append(("U0", "neg")); self._expr_op["U0"] = "neg"
            units = []
            for x, y in ps:
                X = x if fx else float(x); Y = y if fy else float(y)
                models = [model_dec(op, X, Y) for op in DEC_OPS]
                if fx:
                    models.append(_dres(-X))
                ea = enc_num_bits(d2bits(x)) if fx else enc_int(x)
                eb = enc_num_bits(d2bits(y)) if fy else enc_int(y)
                units.append(self.pair_unit(prelude, x, y, ea, eb, exprs, models, "dec" if (fx and fy) else "mixed"))
            run_units(self.probe, prelude, units, self.res, self.on_crash(prelude, "dec"), chunk=150)

    def run_conversions(self, dvals, ivals):
        prelude = declare_ops([("A", "n0"), ("B", "i0")])
        prelude += ["pexpr A E0 %s" % hx("int(a)"), "pexpr A E1 %s" % hx("num(b)"), "pexpr A E2 %s" % hx("int(b)"), "pexpr A E3 %s" % hx("num(a)")]
        self._expr_op = {"E0": "int()", "E1": "num()", "E2": "int()", "E3": "num()"}
        units = []
        n = max(len(dvals), len(ivals))
        for k in range(n):
            d = dvals[k % len(dvals)]; i = ivals[k % len(ivals)]
            models = [model_int_of_dec(d), _dres(float(i)) if i != 0 else ("n", "zero"), ("i", i), _dres(d)]
            exprs = [("E0", "int()"), ("E1", "num()"), ("E2", "int()"), ("E3", "num()")]
            # desc carries (a,b): use d as a and i as b
            units.append(self.pair_unit(prelude, d, i, enc_num_bits(d2bits(d)), enc_int(i), exprs, models, "conv"))
        run_units(self.probe, prelude, units, self.res, self.on_crash(prelude, "conv"), chunk=150)

    def run_catch(self):
        """the errors the property calls catchable really are caught by a script handler"""
        E = self.E
        progs = [
            ("/", "i0", "i0", "begin r = a / b; exception when divide_by_zero then r = 424242; end;", [(5, 0), (0, 0), (IMIN, 0), (-1, 0)]),
            ("%", "i0", "i0", "begin r = a % b; exception when divide_by_zero then r = 424242; end;", [(5, 0), (0, 0), (IMIN, 0)]),
            ("int()", "n0", "i0", "begin r = int(a); exception when out_of_range then r = 424242; end;",
             [(2.0 ** 63, 0), (math.inf, 0), (-math.inf, 0), (math.nan, 0), (1e300, 0), (math.nextafter(-(2.0 ** 63), -math.inf), 0)]),
        ]
        for op, ta, tb, text, cases in progs:
            for a, b in cases:
                ea = enc_int(a) if ta == "i0" else enc_num_bits(d2bits(a))
                ops = ["new A 0", "reg A 41 %s" % ta, "reg A 42 i0", "reg A 52 i0", "parse A P %s" % hx(text),
                       "set A 41 %s" % ea, "set A 42 %s" % enc_int(b), "run A P 1000", "get A 52"]
                r = self.probe.case(ops)
                self.res["evaluations"] += 1; self.res["nontrivial_count"] += 1
                bump(self.res, "evaluations_catch")
                if r.crashed:
                    self.crash(op, a, b, "catch", r, ops); continue
                run = r.replies[7]; got = r.replies[8]
                if not run.startswith("ok"):
                    self.viol(op, a, b, "catch", "handler did not catch: " + run[:100], ops)
                elif not got.startswith("val i:424242"):
                    self.viol(op, a, b, "catch", "handler not entered, r = " + got[:60], ops)
                self.sample({"form": "catch", "text": text, "a": repr(a), "b": repr(b), "run": run[:40], "r": got[:30]})

    def finish(self):
        self.probe.close()
        return self.res


def run_shard(desc):
    sh = Shard(desc)
    L = int_lattice()
    kind = desc["kind"]
    rnd = random.Random((desc["seed"] << 8) ^ hash(kind) & 0xffff ^ desc.get("k", 0) * 7919)
    rnd = random.Random("%s-%s-%s" % (desc["seed"], kind, desc.get("k", 0)))
    if kind == "intlat":
        pairs = [(a, b) for i, a in enumerate(L) for j, b in enumerate(L) if (i * len(L) + j) % desc["n"] == desc["k"]]
        sh.run_int_pairs(pairs, "var")
        step = 9 if desc["tier"] == "quick" else 1
        sh.run_literal_side(pairs[::step])
    elif kind == "shift":
        pairs = [(a, d) for a in L for d in range(-130, 131)]
        sh.run_int_pairs(pairs, "shift")
    elif kind == "dec":
        D = dbl_lattice()
        pairs = [(x, y) for x in D for y in D]
        sh.run_dec_pairs(pairs, False)
    elif kind == "intdec":
        D = dbl_lattice()
        Ls = L if desc["tier"] == "thorough" else sorted(set(L[::2] + [0, 1, -1, 2, -2, L[0], L[-1], (1 << 63) - 1, -(1 << 63)]))
        pairs = [(a, y) for a in Ls for y in D] + [(x, b) for x in D for b in Ls]
        sh.run_dec_pairs(pairs, True)
        nb = [2.0 ** 63, -(2.0 ** 63)]
        dv = list(D)
        for base in nb:
            x = base
            for _ in range(6):
                x = math.nextafter(x, math.inf); dv.append(x)
            x = base
            for _ in range(6):
                x = math.nextafter(x, -math.inf); dv.append(x)
        dv += [0.9999999999999999, -0.9999999999999999, 1.5, -1.5, 2.5, 9.007199254740993e15, 9.223372036854775e18, -9.223372036854775e18]
        sh.run_conversions(dv, L)
    elif kind == "catch":
        sh.run_catch()
    elif kind == "rand":
        n = desc["count"]; k = desc["k"]; ns = desc["n"]
        # random 64-bit patterns; shard index forced into the low bits of a (cross-shard disjointness)
        seen = set(); pairs = []
        while len(pairs) < n // 14:
            a = rnd.getrandbits(64); a = (a - (a % ns)) + k; a = s64(a)
            r = rnd.random()
            if r < 0.5: b = s64(rnd.getrandbits(64))
            elif r < 0.75: b = rnd.choice(L)
            else: b = rnd.randint(-70, 70)
            if (a, b) in seen: continue
            seen.add((a, b)); pairs.append((a, b))
        sh.run_int_pairs(pairs, "rand")
        # random doubles (random bit patterns -> subnormals, nan, inf occur), plus mixed
        dp = []
        for _ in range(n // 14):
            x = bits2d(rnd.getrandbits(64)); y = bits2d(rnd.getrandbits(64))
            r = rnd.random()
            if r < 0.3: y = rnd.choice(dbl_lattice())
            elif r < 0.5: y = s64(rnd.getrandbits(64))
            elif r < 0.6: x = s64(rnd.getrandbits(64))
            elif r < 0.8:
                # moderate magnitudes so that + - * / are not dominated by inf/0
                x = rnd.uniform(-1e6, 1e6); y = rnd.uniform(-1e3, 1e3)
            dp.append((x, y))
        sh.run_dec_pairs([p for p in dp if isinstance(p[0], float) or isinstance(p[1], float)], True)
        dv = [bits2d(rnd.getrandbits(64)) for _ in range(n // 40)] + [rnd.uniform(-1.9e19, 1.9e19) for _ in range(n // 40)]
        iv = [s64(rnd.getrandbits(64)) for _ in range(n // 40)]
        sh.run_conversions(dv, iv)
    return sh.finish()


def replay(wit):
    r = generic_replay(wit)
    return 1 if r.crashed else 0
