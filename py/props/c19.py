"""C19 — the bloc command reports outcome, output and arguments faithfully.

Process twin: the same program is run by the real (ASan+UBSan) bloc binary — `bloc file args`, `bloc - args`,
`bloc --out=F file args`, `bloc -e expr`, `bloc -i` fed on stdin, and save/load through `bloc -i` — and through
the library in a trusted context with $ARG preloaded the same way; stdout / --out file, the rendering of the
returned value, exit status, stderr and $ARG are compared."""
import os, random, subprocess, tempfile, shutil, re
from vlib import *
import model_lang as ml
import lang_diff as ld

PROPERTY = "C19"
LEVEL = "exploration"
RULE = ("one evaluation = one invocation of the bloc binary compared with the library twin (output bytes, returned-value rendering, exit status 0 iff "
        "compiled and no unhandled error, error message on stderr with line:column for compile errors, $ARG = argv in order and bytes); non-trivial = "
        "the invocation produced output or an error report that was compared; distinct = hashes of (mode, program, argv)")
ASSUMPTIONS = ["the library twin renders a returned value with the library's own readable* functions in the order of apps/main.cpp output()", "in -i mode only lines carrying the generator's @@n: markers are compared "
               "(banner, prompts, Elapsed lines are decoration); interactive mode never receives arbitrary bytes", "gcc ASan/UBSan runtimes"]

ARGVS = [[], ["a"], ["a", "b", "c"], ["", "x"], ["with space", "two  spaces"], ['q"uote', "it's"], ["\xc3\xa9\xc3\xa0", "\xe2\x82\xac"], ["-x", "--out=zz", "-e", "-i"], ["-5", "3"], ["--", "-"], ["a" * 300], ["1", "2", "3", "4", "5", "6", "7", "8", "9", "10", "11", "12"],
         ["\\n", "tab\there"], ["=", "!", "help", "exit"]]
RETURNS = ["return true;", "return false;", "return 42;", "return -7;", "return 2.5;", "return 1e20;", "return 0.1 + 0.2;", 'return "plain";', 'return "x" + "y" * 0;', 'return "%s";' % ("L" * 79), 'return "%s";' % ("M" * 80), 'return "%s";' % ("N" * 500),
           'return "multi\\nline";', "return null;", "return int();", "return str();", 'return tup(1, "a", 2.5, true);', "return tab(2, 1);", "return;", "return raw(2, 65);", "return 9223372036854775807;", "return 1 == 1;", "return ii;", 'return "\\xff\\xfehigh";']
COMPILE_ERRORS = ["a = 1 +;", "print 1;\nb = (2;\nprint 3;", "for i in 1 to loop end loop;", "print 1;\n\n\n   x = = 2;", "function f( return integer is begin return 1; end;", "a = undefined_thing + 1;", 'a = "unterminated;', "print 1; end loop;"]
RUNTIME_ERRORS = ['print "before"; a = 1 / 0; print "after";', "raise my_error;", 'print "x"; t = tab(1, 1); b = t.at(9);', 'a = int("zz");', 'for i in 1 to 3 loop print i; if i == 2 then raise boom; end if; end loop;',
                  'function f(n) return integer is begin return n * 2; end; print f("s");', 'begin raise a1; exception when a1 then print "h"; raise a2; end;']


class Sh:
    def __init__(self, desc):
        self.desc = desc; self.res = new_result()
        self.rnd = random.Random("%s-c19-%s-%s" % (desc["seed"], desc["kind"], desc["k"]))
        self.bdir = build("asan"); self.blocbin = os.path.join(self.bdir, "apps", "bloc")
        self.work = tempfile.mkdtemp(prefix="c19_")
        self.env = dict(os.environ); self.env["ASAN_OPTIONS"] = ASAN_OPTS; self.env["UBSAN_OPTIONS"] = UBSAN_OPTS; self.env["LD_LIBRARY_PATH"] = os.path.join(self.bdir, "libonly"); self.env["TERM"] = "dumb"
        self.probe = Probe("asan", timeout=60)
        self.E = errnos(self.probe)

    def viol(self, cls, what, wit):
        add_violation(self.res, "C19|" + cls, what, wit)

    def lib(self, text, argv, expr=False):
        """library twin -> dict(compiled, outcome, out, rets)"""
        args = "ts1[" + ",".join("s:" + a.encode("latin-1").hex() for a in argv) + "]"
        if expr:
            ops = ["new A 1", "pexpr A E %s" % hx(text), "eval A E 100000"]
            r = self.probe.case(ops)
            if r.crashed or r.timeout: return None
            if not r.replies[1].startswith("ok"): return {"compiled": False, "perr": r.replies[1]}
            h, pos, kw = rfields(r.replies[2])
            if h != "val": return {"compiled": True, "outcome": "error", "out": unhx(kw.get("out", "-")), "rets": None}
            return {"compiled": True, "outcome": "ok", "out": unhx(kw.get("out", "-")), "rets": unhx(kw.get("rets", "-"))}
        ops = ["new A 1", "set A 24415247 %s" % args, "parse A P %s" % hx(text), "run A P 200000"]
        r = self.probe.case(ops)
        if r.crashed or r.timeout: return None
        if not r.replies[2].startswith("ok"): return {"compiled": False, "perr": r.replies[2]}
        oc, intr, out, steps = ld.impl_outcome(r.replies[3], self.E)
        if intr: return None
        h, pos, kw = rfields(r.replies[3])
        rets = kw.get("rets", "none")
        return {"compiled": True, "outcome": oc[0], "err": oc[1], "out": out, "rets": None if rets == "none" else unhx(rets)}

    def run_bin(self, cmd, stdin=b""):
        try:
            p = subprocess.run([self.blocbin] + cmd, input=stdin, stdout=subprocess.PIPE, stderr=subprocess.PIPE, env=self.env, cwd=self.work, timeout=60)
        except subprocess.TimeoutExpired:
            return None
        return p

    def compare(self, mode, text, argv, outfile=False, crlf=False):
        L = self.lib(text, argv)
        if L is None:
            self.res["inconclusive"] += 1; return
        if crlf:
            # the same program as an MS-DOS formatted source: identical behaviour, identical line:column in messages
            text = text.replace("\n", "\r\n"); bump(self.res, "invocations_crlf_source")
        fn = os.path.join(self.work, "prog.bloc"); open(fn, "wb").write(text.encode("latin-1"))
        of = os.path.join(self.work, "out.txt")
        if os.path.exists(of): os.remove(of)
        av = [a for a in argv]
        if any("\x00" in a for a in av): return
        bargv = [a.encode("latin-1") for a in av]
        if mode == "file": cmd = ([("--out=" + of).encode()] if outfile else []) + [fn.encode()] + bargv; inp = b""
        else: cmd = ([("--out=" + of).encode()] if outfile else []) + [b"-"] + bargv; inp = text.encode("latin-1")
        p = self.run_bin(cmd, inp)
        self.res["evaluations"] += 1; bump(self.res, "invocations_" + mode + ("_out" if outfile else ""))
        wit = {"cmd": [c.decode("latin-1") for c in cmd], "program": text, "argv": argv}
        label = "bloc %s%s, argv %r, program `%s`" % ("--out " if outfile else "", mode, argv, text[:100].replace("\n", "\\n"))
        if p is None:
            self.res["inconclusive"] += 1; return
        err = p.stderr.decode("latin-1")
        if p.returncode not in (0, 1) or "Sanitizer" in err or "runtime error:" in err:
            self.viol("cli-crash:%s" % (sig_of_report(err) or p.returncode), "%s: exit %d %s" % (label, p.returncode, sig_of_report(err)), dict(wit, stderr=err[-2000:])); return
        got = open(of, "rb").read() if (outfile and os.path.exists(of)) else p.stdout
        if not L["compiled"]:
            if p.returncode == 0: self.viol("exit-status|compile-error", "%s: exit 0 although the program does not compile" % label, wit); return
            if not re.search(r"Error \(\d+:\d+\)", err): self.viol("stderr|compile-error", "%s: no 'Error (line:column)' on stderr: %r" % (label, err[:100]), wit); return
            m = re.search(r"Error \((\d+):(\d+)\)", err); lp = L["perr"].split()
            if (m.group(1), m.group(2)) != (lp[2], lp[3]): self.viol("stderr|compile-error-position", "%s: position %s:%s, the library reports %s:%s" % (label, m.group(1), m.group(2), lp[2], lp[3]), wit); return
            if got: self.viol("output|compile-error", "%s: produced output %r although nothing ran" % (label, got[:60]), wit); return
        else:
            want = L["out"] + (L["rets"] if (L["outcome"] == "returned" and L["rets"] is not None) else b"")
            if L["outcome"] == "error":
                if p.returncode == 0: self.viol("exit-status|runtime-error", "%s: exit 0 although the program failed with %s" % (label, L["err"]), wit); return
                if "Error" not in err: self.viol("stderr|runtime-error", "%s: no error message on stderr" % label, wit); return
            else:
                if p.returncode != 0: self.viol("exit-status|success", "%s: exit %d although the program ran without error (stderr %r)" % (label, p.returncode, err[:100]), wit); return
            if got != want:
                n = 0
                while n < len(got) and n < len(want) and got[n] == want[n]: n += 1
                self.viol("output|%s" % ("returned-value" if got[:len(L["out"])] == L["out"] else "printed"), "%s: output differs at byte %d: bloc %r, library %r" % (label, n, got[max(0, n - 20):n + 40], want[max(0, n - 20):n + 40]), wit); return
            if outfile and p.stdout:
                self.viol("output|stdout-with-out-file", "%s: wrote %r to stdout although --out was given" % (label, p.stdout[:60]), wit); return
        self.res["nontrivial"].add(case_hash([mode, outfile, text, argv]))
        if len(self.res["samples"]) < 3:
            self.res["samples"].append({"cmd": wit["cmd"][-3:], "exit": p.returncode, "stdout": got[:60].decode("latin-1"), "library_outcome": L.get("outcome", "compile error")})

    ARGPROG = 'print $ARG.count(); forall a in $ARG loop print "[" a "]" strlen(a); end loop;'

    def programs(self):
        r = self.rnd
        n = 40 if self.desc["tier"] == "quick" else 800
        for i in range(n):
            g = ml.Gen(r, r.choice(["loops", "errors", "functions"]))
            funcs, prog = g.program()
            text = ml.render(funcs, prog, r)
            argv = r.choice(ARGVS)
            self.compare(r.choice(["file", "stdin"]), text + "\n" + self.ARGPROG + "\n", argv, outfile=r.random() < 0.25)
        for t in RETURNS + COMPILE_ERRORS + RUNTIME_ERRORS:
            for mode in ("file", "stdin"):
                self.compare(mode, 'print "start";\n' + t + "\n", r.choice(ARGVS), outfile=r.random() < 0.3)
                self.compare(mode, t, [], outfile=False)
        multi = ['s = "line one\nline two\nline three"; print strlen(s); print s;', 'print 1;\nprint 2 /* two\nlines */ + 1;\nprint "a\nb";\nreturn "r\ns";']
        for t in COMPILE_ERRORS + RUNTIME_ERRORS + RETURNS[:4] + multi:
            for mode in ("file", "stdin"):
                self.compare(mode, 'print "start";\n\n' + t + "\n", [], outfile=False, crlf=True)
        for argv in ARGVS:
            for mode in ("file", "stdin"):
                self.compare(mode, self.ARGPROG + "\n", argv, outfile=False)
                self.compare(mode, self.ARGPROG + "\nreturn $ARG.count();\n", argv, outfile=True)
        # source bytes: every byte value inside a string literal must reach the program
        for b in list(range(1, 256)):
            if b in (0x22, 0x5c, 0x0a, 0x0d): continue
            ch = bytes([b]).decode("latin-1")
            self.compare(r.choice(["file", "stdin"]), 's = "<%s>"; print strlen(s) " " s.at(1); print s;\n' % ch, [])

    def exprs(self):
        r = self.rnd
        exprs = ["1 + 2", "2.5 * 2", '"a" + "b"', "true and false", "null", "int()", "3 ** 39", "1 / 0", "tab(2, 1).count()", 'tup(1, "x")', "10 / 4", "1e20", "0.1 + 0.2", '"%s"' % ("Z" * 200), "pi", "1 +", "(1", "undefined_x",
                 "str(12) + str(3)", "ii * ii", "hex(255)", 'b64enc("abc")', "typeof(1.5)", "9223372036854775807 + 1", "(-5)", "not true", "isnull(null)", '"multi\nline"'.replace("\n", "\\n")]
        for e in exprs:
            L = self.lib(e, [], expr=True)
            if L is None: continue
            for form in ("one-arg", "split-args"):
                cmd = [b"-e", e.encode()] if form == "one-arg" else [b"-e"] + [x.encode() for x in e.split(" ")]
                if form == "split-args" and ('"' in e and " " in e): continue
                p = self.run_bin(cmd)
                self.res["evaluations"] += 1; bump(self.res, "invocations_expr")
                wit = {"cmd": [c.decode() for c in cmd], "program": e}
                if p is None: self.res["inconclusive"] += 1; continue
                err = p.stderr.decode("latin-1")
                if p.returncode not in (0, 1) or "Sanitizer" in err or "runtime error:" in err:
                    self.viol("cli-crash:%s" % (sig_of_report(err) or p.returncode), "bloc -e `%s`: exit %d" % (e, p.returncode), dict(wit, stderr=err[-2000:])); continue
                ok = L["compiled"] and L["outcome"] == "ok"
                if ok != (p.returncode == 0):
                    self.viol("exit-status|expr", "bloc -e `%s`: exit %d, the library %s" % (e, p.returncode, "evaluates it" if ok else "rejects/fails it"), wit); continue
                if ok and p.stdout != L["out"] + L["rets"]:
                    self.viol("output|expr", "bloc -e `%s` printed %r, the library value renders as %r" % (e, p.stdout[:80], (L["out"] + L["rets"])[:80]), wit); continue
                if not ok and "Error" not in err + p.stdout.decode("latin-1"):
                    self.viol("stderr|expr", "bloc -e `%s` failed without an error message" % e, wit); continue
                self.res["nontrivial"].add(case_hash(["expr", e, form]))

    def interactive(self):
        """generated well-formed programs fed to `bloc -i` on stdin: same statements, same printed markers; save/load round trip"""
        r = self.rnd
        if self.desc["k"] == 0: self.fixed_sessions()
        n = 25 if self.desc["tier"] == "quick" else 500
        for i in range(n):
            g = ml.Gen(r, r.choice(["loops", "functions"]))
            funcs, prog = g.program()
            b = ml.bounded(funcs, prog)
            if b is None or b[1][0] != "ok": continue           # interactive mode goes on after an error and prints returned values: only error-free, return-free programs are compared
            # layout: one top-level statement per line, or several statements packed on a line (free-form language: the
            # interactive loop must execute every statement of a line, also the ones after an `end loop;`)
            chunks = ml.render(funcs, prog, r, toplevel_split=True)
            if any(c.startswith("function") and re.search(r"\breturn\s*;", c) for c in chunks):
                continue      # a bare `return;` in a typed function: compile-time types differ between whole-program and statement-at-a-time (see C02)
            if i % 2 == 0:
                text = "\n".join(chunks) + "\n"
            else:
                text = chunks[0]
                for c in chunks[1:]:
                    text += r.choice(["\n", " ", " ", "  "]) + c
                text += "\n"
                bump(self.res, "interactive_programs_with_packed_lines")
            if re.search(r"^\s*(exit|clear|list|load|save|run|desc|dump|help|copyright|license|=|!)", text, re.M): continue
            L = self.lib(text, [])
            if L is None or not L["compiled"] or L["outcome"] != "ok": continue
            want = ld.markers(L["out"])
            sv = os.path.join(self.work, "saved.bloc")
            if os.path.exists(sv): os.remove(sv)
            feed = text + "\nsave \"%s\"\nexit\n" % sv
            p = self.run_bin([b"-i", b"x1", b"x 2"], feed.encode())
            self.res["evaluations"] += 1; bump(self.res, "invocations_interactive")
            wit = {"cmd": ["-i"], "program": text}
            if p is None: self.res["inconclusive"] += 1; continue
            err = p.stderr.decode("latin-1")
            if p.returncode not in (0, 1) or "Sanitizer" in err or "runtime error:" in err:
                self.viol("cli-crash:%s" % (sig_of_report(err) or p.returncode), "bloc -i crashed: exit %d %s" % (p.returncode, sig_of_report(err)), dict(wit, stderr=err[-2000:])); continue
            # printed markers only: the echo of the fed source (readline) shows them inside quotes
            # (readline redraws long input lines, so a fragment of the echo may start right at a marker: in the source a marker is always
            # followed by the closing quote of its literal, in printed output never)
            got = [m.group(0) for m in re.finditer(r'(?<!")@@\d+:(?!")[^\n]*', p.stdout.decode("latin-1"))]
            if got != want:
                k = 0
                while k < len(got) and k < len(want) and got[k] == want[k]: k += 1
                self.viol("interactive|markers", "bloc -i printed marker #%d %r, the library %r (%d vs %d markers)" % (k, got[k] if k < len(got) else None, want[k] if k < len(want) else None, len(got), len(want)), wit); continue
            # the saved text reloads (bloc file) to the same output
            if not os.path.exists(sv):
                self.viol("interactive|save", "save wrote no file", wit); continue
            p2 = self.run_bin([sv.encode()])
            self.res["evaluations"] += 1; bump(self.res, "invocations_saved_reload")
            if p2 is None: continue
            if p2.returncode != 0 or ld.markers(p2.stdout) != want:
                self.viol("interactive|saved-program-differs", "the program saved by bloc -i reloads to exit %d and markers %r..., expected %r... (stderr %r)" % (p2.returncode, ld.markers(p2.stdout)[:3], want[:3], p2.stderr.decode("latin-1")[:100]), dict(wit, saved=open(sv).read()[:2000])); continue
            self.res["nontrivial"].add(case_hash(["interactive", text]))

    def fixed_sessions(self):
        """interactive sessions whose printed markers follow from the statements alone: recovery after a statement that failed in a loop
        header (the loop must not stay in control), and save / clear / load / run within one session"""
        sv = os.path.join(self.work, "sess.bloc")
        sessions = [
            ('c = 0;\nwhile 1 / 0 > 1 loop nop; end loop;\nbreak;\nfor i in 1 to 3 loop print "@@1:" i; end loop;\nprint "@@2:" c;\n', ["@@1:1", "@@1:2", "@@1:3", "@@2:0"]),
            ('c = 0;\nwhile chr(300) == "x" loop nop; end loop;\ncontinue;\nwhile c < 3 loop c = c + 1; print "@@1:" c; end loop;\nt = tab(2, 1); forall e in t loop print "@@2:" e; end loop;\n',
             ["@@1:1", "@@1:2", "@@1:3", "@@2:1", "@@2:1"]),
            ('t = tab(2, 5);\nbegin while t.at(7) > 1 loop nop; end loop; exception when others then print "@@0:h"; end;\nbreak;\nfor i in 1 to 2 loop print "@@1:" i; end loop;\nt.put(0, 6); print "@@2:" t.at(0);\n',
             ["@@1:1", "@@1:2", "@@2:6"]),
            ('a = 2;\nfor i in 1 to 2 loop print "@@1:" a * i; end loop;\nsave "%s"\nclear\nload "%s"\nrun\n' % (sv, sv), ["@@1:2", "@@1:4", "@@1:2", "@@1:4"]),
            ('function f(x) return integer is begin return x * 3; end;\nprint "@@1:" f(2);\nsave "%s"\nclear\nload "%s"\nrun\nprint "@@2:" f(5);\n' % (sv, sv), ["@@1:6", "@@1:6", "@@2:15"]),
        ]
        for text, want in sessions:
            if os.path.exists(sv): os.remove(sv)
            p = self.run_bin([b"-i"], (text + "exit\n").encode())
            self.res["evaluations"] += 1; bump(self.res, "interactive_fixed_sessions")
            wit = {"cmd": ["-i"], "program": text}
            if p is None: self.res["inconclusive"] += 1; continue
            err = p.stderr.decode("latin-1")
            if p.returncode not in (0, 1) or "Sanitizer" in err or "runtime error:" in err:
                self.viol("cli-crash:%s" % (sig_of_report(err) or p.returncode), "bloc -i crashed on a fixed session: exit %d" % p.returncode, dict(wit, stderr=err[-2000:])); continue
            got = [m.group(0) for m in re.finditer(r'(?<!")@@\d+:(?!")[^\n]*', p.stdout.decode("latin-1"))]
            if got != want:
                self.viol("interactive|session", "interactive session printed %r, its statements give %r" % (got, want), wit); continue
            self.res["nontrivial"].add(case_hash(["session", text]))

    def finish(self):
        self.probe.close(); shutil.rmtree(self.work, ignore_errors=True)
        return self.res


def plan(tier, seed):
    sh = [{"kind": "programs", "k": k, "n": 8, "seed": seed, "tier": tier} for k in range(8)]
    sh += [{"kind": "exprs", "k": 0, "n": 1, "seed": seed, "tier": tier}]
    sh += [{"kind": "interactive", "k": k, "n": 4, "seed": seed, "tier": tier} for k in range(4)]
    return sh


def run_shard(desc):
    s = Sh(desc)
    try:
        getattr(s, desc["kind"])()
    finally:
        r = s.finish()
    return r


def replay(wit):
    print(wit["witness"])
    return 0
