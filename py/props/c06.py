"""C06 — loops and conditionals execute exactly the iterations the manual prescribes.

Reference-interpreter monitor: generated programs (loop-heavy G_model) are run by the real interpreter under
ASan+UBSan with a statement budget; the printed marker trace, the outcome, the final variables and the
post-run control state are compared with a python reference interpreter of the documented semantics."""
import random
from vlib import *
import model_lang as ml
import lang_diff as ld

PROPERTY = "C06"
LEVEL = "exploration"
RULE = ("one evaluation = one generated program (or one enumerated loop header) executed by the real interpreter with a 20000-statement budget and "
        "compared with the reference interpreter (marker trace, outcome, final variables) plus post-run invariants (control stack empty, no "
        "iterator constraint or table lock left, former iterators/tables reusable); non-trivial = the program executed at least one loop "
        "iteration or a zero-iteration loop header in both; distinct = distinct program texts (hash)")
ASSUMPTIONS = ["python reference interpreter of the manual's For/Forall/Control-structure sections (150 lines)", "value of a for variable after its loop is not asserted",
               "decimal loop bounds are not generated", "gcc ASan/UBSan runtimes"]

IMAX = (1 << 63) - 1; IMIN = -(1 << 63)


class Sh(ld.DiffRunner):
    def __init__(self, desc):
        ld.DiffRunner.__init__(self, "C06", desc)

    def classify(self, prog, why):
        return ""

    def headers(self):
        """bounded-exhaustive loop headers"""
        bounds = [-2, -1, 0, 1, 2, IMIN, IMIN + 1, IMIN + 2, IMAX - 2, IMAX - 1, IMAX, None]
        steps = [None, 1, 2, 0, -1, "null", IMAX, 3]
        dirs = [None, "asc", "desc"]
        cases = []
        for a in bounds:
            for b in bounds:
                for st in steps:
                    for d in dirs:
                        # bound the number of iterations the model would perform
                        if a is not None and b is not None and abs(a - b) > 6 and (st in (None, 1, 2, 3)):
                            continue
                        if (a is None or b is None) and st in (0, -1):
                            continue   # both "null bound -> zero iterations" and "step < 1 -> OUT_OF_RANGE" apply; the manual gives no precedence
                        cases.append((a, b, st, d))
        k, n = self.desc["k"], self.desc["n"]
        mine = [c for i, c in enumerate(cases) if i % n == k]
        for (a, b, st, d) in mine:
            fa = ("null", "int()") if a is None else ("int", a); fb = ("null", "int()") if b is None else ("int", b)
            fs = None if st is None else (("null", "int()") if st == "null" else ("int", st))
            for variant in range(2):
                body = [("print", 1, [("var", "i")]), ("assign", "c", ("bin", "+", ("var", "c"), ("int", 1)))]
                if variant == 1:
                    body.append(("if", [(("bin", ">=", ("var", "c"), ("int", 5)), [("break",)])], None))
                prog = [("assign", "c", ("int", 0)), ("assign", "t", ("tab", ("int", 1), ("int", 0))), ("assign", "w", ("tab", ("int", 1), ("int", 0))),
                        ("begin", [("for", "i", fa, fb, fs, d, body)], [("out_of_range", [("print", 2, [("errname",)])])]),
                        ("print", 3, [("var", "c")])]
                self.run_program([], prog, "header for i in %s to %s step %s %s" % (a, b, st, d), loopy=False)
                if self.res["counters"].get("worker_crashes", 0) > CRASH_BUDGET: return
        if k == 0:
            # a body that nullifies the control variable: no documented next value; only termination without a crash is asserted
            for hdr in ("for i in 1 to 3 loop", "for i in 3 to 1 loop", "for i in 1 to 3 step 2 asc loop"):
                text = 'c = 0; %s c = c + 1; i = int(); if c > 10 then break; end if; end loop; print "@@1:" c;' % hdr
                ops = ["new A 0", "parse A P %s" % hx(text), "run A P 20000", "dump A"]
                r = self.probe.case(ops)
                self.res["evaluations"] += 1
                if r.crashed:
                    add_violation(self.res, "C06|crash:%s" % r.sig, "`%s` crashed: %s" % (text, r.sig), {"ops": ops, "program": text, "report": r.report[-3000:]}); continue
                ioc, intr, out, steps = ld.impl_outcome(r.replies[2], self.E)
                bad, d = ld.residue(r.replies[3])
                if intr or bad:
                    self.viol("null-control-variable", "`%s`: interrupted=%s residue=%s" % (text, intr, bad), ops, text)
                else:
                    self.res["nontrivial"].add(case_hash(text))

    def random_programs(self):
        n = 1200 if self.desc["tier"] == "quick" else 25000
        for _ in range(n):
            g = ml.Gen(self.rnd, "loops")
            funcs, prog = g.program()
            self.run_program(funcs, prog, "random")
            if self.res["counters"].get("worker_crashes", 0) > CRASH_BUDGET: return


def plan(tier, seed):
    sh = [{"kind": "headers", "k": k, "n": 6, "seed": seed, "tier": tier} for k in range(6)]
    sh += [{"kind": "random", "k": k, "n": 10, "seed": seed, "tier": tier} for k in range(10)]
    return sh


def run_shard(desc):
    s = Sh(desc)
    try:
        if desc["kind"] == "headers": s.headers()
        else: s.random_programs()
    finally:
        s.probe.close()
    return s.res


def replay(wit):
    print(wit["witness"].get("program", ""))
    r = generic_replay(wit)
    return 1 if r.crashed else 0
