"""C10 — string, bytes and conversion built-ins are total, 8-bit clean and mutually consistent.

Arguments are bound through variables bit-exactly (never through source literals, so the scanner is not
in the loop), every builtin is evaluated by the real interpreter under ASan+UBSan, results are compared
with conservative python models, and the argument variables are dumped afterwards (must be unchanged)."""
import random, math, base64
from vlib import *

PROPERTY = "C10"
LEVEL = "exploration"
RULE = ("one evaluation = one builtin/member call on concrete argument values evaluated by the real interpreter and judged by its "
        "sub-oracle (exact model where the manual defines the result, 'BLOC error or contiguous substring' outside, converter round trips, "
        "arguments unchanged); non-trivial = the call returned a value or BLOC error AND the sub-oracle made a content assertion (not just "
        "totality); distinct = distinct (expression, argument values) tuples, hashed")
ASSUMPTIONS = ["python bytes/str slicing, find, replace, base64, float repr as reference semantics", "DJB-33 hash as in tests/hashvalue.c",
               "gcc ASan/UBSan runtimes"]

IMIN = -(1 << 63); IMAX = (1 << 63) - 1
POS = [0, 1, 2, 3, -1, -2, 5, 7, 8, 63, 64, 65, 255, 256, 1022, 1023, 1024, 1025, 2 ** 31 - 1, 2 ** 31, 2 ** 32, 2 ** 32 + 1, IMAX, IMAX - 1, IMIN, IMIN + 1, -255, -256, -(2 ** 31), -(2 ** 32) - 1]
CODES = [-1, 0, 1, 32, 65, 127, 128, 200, 255, 256, 257, 511, 512, 65536 + 65, 2 ** 31, 2 ** 32 + 65, IMAX, IMIN, -255, -256]

# name -> (text, kinds of args)  s,t,u strings; x bytes; i,j ints; d decimal
EXPRS = [
    ("substr2", "substr(s, i)"), ("substr3", "substr(s, i, j)"), ("lsubstr", "lsubstr(s, i)"), ("rsubstr", "rsubstr(s, i)"),
    ("subraw2", "subraw(x, i)"), ("subraw3", "subraw(x, i, j)"), ("strpos2", "strpos(s, t)"), ("strpos3", "strpos(s, t, i)"),
    ("replace", "replace(s, t, u)"), ("trim", "trim(s)"), ("ltrim", "ltrim(s)"), ("rtrim", "rtrim(s)"), ("upper", "upper(s)"), ("lower", "lower(s)"),
    ("tokenize", "tokenize(s, t)"), ("tokenizet", "tokenize(s, t, true)"), ("strlen", "strlen(s)"), ("scount", "s.count()"), ("xcount", "x.count()"),
    ("hash_s", "hash(s)"), ("hash_x", "hash(x)"), ("hash_si", "hash(s, i)"), ("hash_xi", "hash(x, i)"),
    ("raw_s", "raw(s)"), ("str_x", "str(x)"), ("b64enc_s", "b64enc(s)"), ("b64enc_x", "b64enc(x)"), ("b64rt_x", "b64dec(b64enc(x))"), ("b64rt_s", "b64dec(b64enc(s))"),
    ("b64dec_s", "b64dec(s)"), ("isnum", "isnum(s)"), ("num_s", "num(s)"), ("int_s", "int(s)"), ("sat", "s.at(i)"), ("xat", "x.at(i)"),
    # the same built-ins on a *temporary* operand (they may then work in place)
    ("tmp:substr2", 'substr(ids(s), i)'), ("tmp:substr3", 'substr(ids(s), i, j)'), ("tmp:lsubstr", 'lsubstr(ids(s), i)'), ("tmp:rsubstr", 'rsubstr(ids(s), i)'),
    ("tmp:subraw2", "subraw(idb(x), i)"), ("tmp:subraw3", "subraw(idb(x), i, j)"), ("tmp:trim", 'trim(ids(s))'), ("tmp:ltrim", 'ltrim(ids(s))'), ("tmp:rtrim", 'rtrim(ids(s))'),
    ("tmp:upper", 'upper(ids(s))'), ("tmp:lower", 'lower(ids(s))'), ("tmp:replace", 'replace(ids(s), t, u)'), ("tmp:b64enc_x", "b64enc(idb(x))"), ("tmp:b64rt_x", "b64dec(b64enc(idb(x)))"),
    ("tmp:hash_x", "hash(idb(x))"), ("tmp:raw_s", 'raw(ids(s))'),
]
INT_EXPRS = [("hex1", "hex(i)"), ("hex2", "hex(i, k)"), ("chr", "chr(i)"), ("raw2", "raw(k, i)"), ("str_i", "str(i)"), ("intstr", "int(str(i))"),
             ("numstr", "num(str(d))"), ("str_d", "str(d)"), ("isnum_si", "isnum(str(i))"), ("isnum_sd", "isnum(str(d))"), ("chr_d", "chr(d)")]
MUT_EXPRS = [("sput", "s.put(j, i)"), ("sconcat", "s.concat(i)"), ("xput", "x.put(j, i)"), ("xconcat", "x.concat(i)"), ("sinsert", "s.insert(j, i)"), ("xinsert", "x.insert(j, i)")]


def djb(b, maxsize):
    h = 5381
    for c in b:
        sc = c - 256 if c >= 128 else c
        h = (h * 33 + sc) & 0xFFFFFFFF
    return h % maxsize


def is_sub(needle, hay):
    return needle in hay


def get_val(reply):
    """('val', parsed) | ('err', no, msg) | ('foreign', ..) | ('bad', reply)"""
    head, pos, kw = rfields(reply)
    if head == "val":
        return ("val", parse_value(pos[0]))
    if head == "rerr":
        return ("err", int(pos[0]), unhx(pos[1]).decode("latin-1"))
    if head == "foreign":
        return ("foreign", unhx(pos[0]).decode("latin-1"))
    return ("bad", reply[:100])


class Sh:
    def __init__(self, desc):
        self.desc = desc; self.res = new_result(); self.probe = Probe("asan")
        self.E = errnos(self.probe)
        self.rnd = random.Random("%s-c10-%s" % (desc["seed"], desc["k"]))

    def viol(self, name, cls, what, ops):
        add_violation(self.res, "C10|%s|%s" % (name, cls), what, {"ops": ops})

    # ---- random data ---------------------------------------------------------------------
    def rstr(self):
        r = self.rnd; k = r.random()
        if k < 0.08: return b""
        if k < 0.14: return b" " * r.randint(1, 5)
        if k < 0.2:
            n = r.choice([1022, 1023, 1024, 1025]); return bytes(r.choice(b"ab ,;") for _ in range(n))
        n = r.randint(1, 24)
        alph = r.choice([b"ab", b"abc ,", b" \t\n\r\x0b\x0cxy", bytes(range(256)), b"aA zZ09", b"\x00\x80\xff\x7fa", b"0123456789+-.eE x", b"ab,,;"])
        return bytes(r.choice(alph) for _ in range(n))

    def rsep(self, s):
        r = self.rnd; k = r.random()
        if k < 0.1: return b""
        if k < 0.5 and len(s) > 0:
            a = r.randrange(len(s)); b = min(len(s), a + r.randint(1, 3)); return s[a:b]
        return bytes(r.choice(b"ab,; \x00\xff") for _ in range(r.randint(1, 3)))

    def rnumstr(self):
        r = self.rnd
        forms = [lambda: str(r.randint(-10 ** 6, 10 ** 6)), lambda: repr(r.uniform(-1e6, 1e6)), lambda: "%e" % r.uniform(-1e300, 1e300),
                 lambda: " " * r.randint(0, 2) + str(r.randint(0, 999)) + r.choice(["", " ", "abc", "e", "e5", ".", ".5x"]),
                 lambda: r.choice(["", " ", "+", "-", ".", "e5", "0x1F", "0X", "0x", "inf", "nan", "-inf", "1e999", "-1e999", "1e-999", "99999999999999999999",
                                   "-99999999999999999999", "9223372036854775807", "9223372036854775808", "-9223372036854775808", "-9223372036854775809",
                                   "0x7fffffffffffffff", "0xffffffffffffffff", "0x10000000000000000", "+5", "-0", "1_000", "١٢", "\x00", "12\x0034"]),
                 lambda: str(r.getrandbits(64) - (1 << 63))]
        return r.choice(forms)().encode("utf-8", "replace")

    # ---- units ---------------------------------------------------------------------------
    def prelude(self, exprs):
        # idb/ids hand their argument back: a call of them is a temporary holding the bytes/string of the variable
        idf = "function idb(a:bytes) return bytes is begin return a; end; function ids(a:string) return string is begin return a; end;"
        pre = ["new A 0", "parse A IDF %s" % hx(idf), "run A IDF 100", "reg A 53 s0", "reg A 54 s0", "reg A 55 s0", "reg A 58 x0", "reg A 49 i0", "reg A 4a i0", "reg A 4b i0", "reg A 44 n0"]
        for n, t in exprs:
            pre.append("pexpr A %s %s" % (n, hx(t)))
        return pre

    def string_unit(self, pre, s, t, u, x, i, j, nulls):
        encs = {"S": "Zs0" if "s" in nulls else enc_str(s), "T": "Zs0" if "t" in nulls else enc_str(t), "U": "Zs0" if "u" in nulls else enc_str(u),
                "X": "Zx0" if "x" in nulls else enc_bytes(x), "I": "Zi0" if "i" in nulls else enc_int(i), "J": "Zi0" if "j" in nulls else enc_int(j)}
        ops = ["set A %s %s" % (hx(k), v) for k, v in encs.items()]
        ops += ["eval A %s" % n for n, _ in EXPRS]
        ops.append("dump A nofn")
        full = pre + ops
        nset = len(encs)
        def check(rep, self=self):
            d = parse_dump(rep[-1])["syms"]
            for k, v in encs.items():
                if d[k]["value"] != v:
                    self.viol("args", k.lower(), "argument variable %s changed from %s to %s after the builtin calls" % (k, v[:60], d[k]["value"][:60]), full)
            for (name, text), r in zip(EXPRS, rep[nset:-1]):
                self.judge(name, text, r, s, t, u, x, i, j, nulls, full)
        return Unit(ops, check, ("str", s, i, j))

    def judge(self, name, text, reply, s, t, u, x, i, j, nulls, full):
        self.res["evaluations"] += 1
        g = get_val(reply)
        args = {"s": s, "t": t, "u": u, "x": x, "i": i, "j": j}
        used = [a for a in "stuxij" if ("(" + a in text or " " + a + ")" in text or " " + a + "," in text or text.startswith(a + "."))]
        anynull = any(a in nulls for a in used)
        def V(cls, what):
            self.viol(name, cls, "%s with %s: %s" % (text, {a: (args[a] if a not in nulls else None) for a in used}, what), full)
        if g[0] == "foreign":
            V("foreign", "foreign exception " + g[1]); return
        if g[0] == "bad":
            V("bad-reply", g[1]); return
        if anynull:
            bump(self.res, "null_argument_calls"); return       # totality only: value or BLOC error
        key = case_hash([name] + [repr(args[a]) for a in used])
        mname = name.split(":", 1)[-1]          # "tmp:substr3" is judged by the model of substr3
        if name == "num_s":
            # isnum(s) is true exactly when num(s) succeeds (isnum was evaluated just before, same s)
            ok = (g[0] == "val" and g[1][0] == "n")
            isn = getattr(self, "_isnum", None)
            self._isnum = None
            if isn is not None and isn != ok:
                V("isnum-num", "isnum(%r) is %s but num() %s" % (s, isn, "succeeded" if ok else ("failed: %r" % (g[1:],))))
            else:
                self.res["nontrivial"].add(key)
            bump(self.res, "isnum_num_pairs"); return
        if g[0] == "err":
            # which errors are legitimate?  a BLOC error is always within "documented value or BLOC error" except where the model
            # says the call is in the plainly defined domain.
            if self.defined_domain(mname, args):
                V("error-in-domain", "BLOC error %d (%s) for in-domain arguments" % (g[1], g[2]))
            else:
                self.res["nontrivial"].add(key)
            bump(self.res, "bloc_errors"); return
        v = g[1]
        why = self.model(mname, v, args)
        if why:
            V(why[0], why[1])
        else:
            self.res["nontrivial"].add(key)
        if len(self.res["samples"]) < 3 and name in ("substr3", "replace", "tokenize"):
            self.res["samples"].append({"expr": text, "args": {a: repr(args[a]) for a in used}, "result": reply[:80]})

    def defined_domain(self, name, a):
        s, x, i, j = a["s"], a["x"], a["i"], a["j"]
        if name in ("substr2",): return 0 <= i <= len(s)
        if name == "substr3": return 0 <= i <= len(s) and j >= 0
        if name in ("lsubstr", "rsubstr"): return i >= 0
        if name == "subraw2": return 0 <= i <= len(x)
        if name == "subraw3": return 0 <= i <= len(x) and j >= 0
        if name == "strpos3": return 0 <= i <= len(s)
        if name in ("hash_si", "hash_xi"): return 1 <= i <= 0xFFFFFFFF
        if name == "sat": return 0 <= i < len(s)
        if name == "xat": return 0 <= i < len(x)
        if name in ("num_s",): return False
        if name in ("int_s",): return False
        if name in ("b64dec_s",): return False
        if name in ("str_x",): return False
        return True

    def model(self, name, v, a):
        s, t, u, x, i, j = a["s"], a["t"], a["u"], a["x"], a["i"], a["j"]
        def want_str(exp):
            if v[0] != "s": return ("type", "expected a string, got %r" % (v,))
            if v[1] != exp: return ("value", "expected %r, got %r" % (exp, v[1]))
        def want_bytes(exp):
            if v[0] != "x": return ("type", "expected bytes, got %r" % (v,))
            if v[1] != exp: return ("value", "expected %r, got %r" % (exp, v[1]))
        def want_int(exp):
            if v[0] != "i": return ("type", "expected an integer, got %r" % (v,))
            if v[1] != exp: return ("value", "expected %r, got %r" % (exp, v[1]))
        def substring_of(src, kind):
            if v[0] != kind: return ("type", "expected %s, got %r" % (kind, v))
            if not is_sub(v[1], src): return ("oob-content", "result %r is not a contiguous part of the argument" % (v[1][:40],))
        if name == "substr2":
            return want_str(s[i:]) if 0 <= i <= len(s) else substring_of(s, "s")
        if name == "substr3":
            return want_str(s[i:i + j]) if (0 <= i <= len(s) and j >= 0) else substring_of(s, "s")
        if name == "lsubstr":
            return want_str(s[:i]) if i >= 0 else substring_of(s, "s")
        if name == "rsubstr":
            return want_str(s[len(s) - min(i, len(s)):]) if i >= 0 else substring_of(s, "s")
        if name == "subraw2":
            return want_bytes(x[i:]) if 0 <= i <= len(x) else substring_of(x, "x")
        if name == "subraw3":
            return want_bytes(x[i:i + j]) if (0 <= i <= len(x) and j >= 0) else substring_of(x, "x")
        if name == "strpos2" or (name == "strpos3" and 0 <= i <= len(s)):
            p = s.find(t, i if name == "strpos3" else 0)
            if p < 0:
                return None if v[0] == "null" else ("value", "expected null (not found), got %r" % (v,))
            return want_int(p)
        if name == "strpos3":
            return None if v[0] in ("null", "i") and (v[0] == "null" or 0 <= v[1] <= len(s)) else ("value", "out-of-range start gave %r" % (v,))
        if name == "replace":
            if len(t) == 0:
                return None if v[0] == "s" else ("type", "expected a string, got %r" % (v,))
            return want_str(s.replace(t, u))
        if name in ("trim", "ltrim", "rtrim"):
            r = substring_of(s, "s")
            if r: return r
            got = v[1]
            ws = b" \t\n\r\x0b\x0c"
            # removed prefix / suffix must be whitespace only and on the right side
            idx = s.find(got) if got else None
            cands = []
            if got == b"":
                ok = all(c in ws for c in s)
                return None if ok else ("value", "non-blank string trimmed to empty")
            ok = False
            start = 0
            while True:
                p = s.find(got, start)
                if p < 0: break
                pre, suf = s[:p], s[p + len(got):]
                if all(c in ws for c in pre) and all(c in ws for c in suf):
                    if name == "ltrim" and suf != b"": pass
                    elif name == "rtrim" and pre != b"": pass
                    else: ok = True; break
                start = p + 1
            if not ok: return ("value", "%s(%r) gave %r" % (name, s, got))
            # must at least strip spaces (0x20) on the trimmed side(s)
            if name in ("trim", "ltrim") and got[:1] == b" ": return ("value", "leading space left by %s" % name)
            if name in ("trim", "rtrim") and got[-1:] == b" ": return ("value", "trailing space left by %s" % name)
            return None
        if name in ("upper", "lower"):
            if v[0] != "s": return ("type", "expected string")
            got = v[1]
            if len(got) != len(s): return ("value", "length changed %d -> %d" % (len(s), len(got)))
            for c, g in zip(s, got):
                if c < 128:
                    e = (bytes([c]).upper() if name == "upper" else bytes([c]).lower())[0]
                    if g != e: return ("value", "byte %r mapped to %r" % (c, g))
            return None
        if name in ("tokenize", "tokenizet"):
            if v[0] != "t" or v[1][0] != "s": return ("type", "expected a table of strings, got %r" % (v[:2],))
            items = []
            for it in v[3]:
                if it[0] == "null": items.append(None)
                elif it[0] == "s": items.append(it[1])
                else: return ("type", "non-string element %r" % (it,))
            if len(t) == 0:
                return None
            if name == "tokenize":
                if any(x is None for x in items): return ("value", "null element without trimming")
                if t.join(items) != s: return ("value", "tokens %r joined by %r != %r" % (items[:6], t, s))
            else:
                exp = [p for p in s.split(t) if p != b""]
                got = [p for p in items if p not in (None, b"")]
                if exp != got: return ("value", "non-empty tokens %r != %r" % (got[:6], exp[:6]))
            return None
        if name in ("strlen", "scount"): return want_int(len(s))
        if name == "xcount": return want_int(len(x))
        if name == "hash_s":
            if v[0] != "i": return ("type", "expected integer")
            return None if v[1] in (djb(s, 1 << 32), djb(s, 0xFFFFFFFF)) else ("value", "hash %d is not DJB-33/32 bits (%d)" % (v[1], djb(s, 1 << 32)))
        if name == "hash_x":
            if v[0] != "i": return ("type", "expected integer")
            return None if v[1] in (djb(x, 1 << 32), djb(x, 0xFFFFFFFF)) else ("value", "hash %d is not DJB-33/32 bits" % v[1])
        if name in ("hash_si", "hash_xi"):
            src = s if name == "hash_si" else x
            if 1 <= i <= 0xFFFFFFFF:
                return want_int(djb(src, i))
            # outside the documented bucket range [1..n]: a BLOC error (handled by the caller) or null; more than 2^32-1 buckets can only
            # mean the plain 32-bit hash; a number for a zero or negative bucket count is not a documented value
            if v[0] == "null": return None
            if v[0] != "i": return ("type", "expected integer or null")
            if i > 0xFFFFFFFF:
                return None if v[1] in (djb(src, 1 << 32), djb(src, 0xFFFFFFFF)) else ("bucket-range", "hash(.., %d) = %d is not the 32-bit hash of the data" % (i, v[1]))
            return ("bucket-range", "hash(.., %d) returned %d: no value is documented for a bucket count below 1" % (i, v[1]))
        if name == "raw_s": return want_bytes(s)
        if name == "str_x":
            return None if v[0] in ("s", "null") else ("type", "expected string")
        if name == "b64enc_s": return want_str(base64.b64encode(s))
        if name == "b64enc_x": return want_str(base64.b64encode(x))
        if name == "b64rt_x": return want_bytes(x)
        if name == "b64rt_s": return want_bytes(s)
        if name == "b64dec_s": return None if v[0] in ("x", "null") else ("type", "expected bytes")
        if name == "isnum":
            if v[0] != "b": return ("type", "expected boolean")
            self._isnum = v[1]; return None
        if name == "num_s":
            ok = v[0] == "n"
            if getattr(self, "_isnum", None) is not None and self._isnum != ok:
                return ("isnum-num", "isnum(%r) is %s but num() %s" % (s, self._isnum, "succeeded" if ok else "did not yield a decimal"))
            return None
        if name == "int_s": return None if v[0] in ("i", "null") else ("type", "expected integer, got %r" % (v,))
        if name == "sat":
            if 0 <= i < len(s): return want_int(s[i])
            return ("range", "s.at(%d) on length %d returned %r instead of an index error" % (i, len(s), v))
        if name == "xat":
            if 0 <= i < len(x): return want_int(x[i])
            return ("range", "x.at(%d) on length %d returned %r instead of an index error" % (i, len(x), v))
        return None

    def judge_err_for_num(self, name, reply):
        pass

    def int_unit(self, pre, i, k, d):
        ops = ["set A 49 %s" % enc_int(i), "set A 4b %s" % enc_int(k), "set A 44 %s" % enc_num_bits(d2bits(d))] + ["eval A %s" % n for n, _ in INT_EXPRS] + ["dump A nofn"]
        full = pre + ops
        def check(rep, self=self):
            dd = parse_dump(rep[-1])["syms"]
            if dd["I"]["value"] != enc_int(i) or dd["K"]["value"] != enc_int(k) or dd["D"]["value"] != enc_num_bits(d2bits(d)):
                self.viol("args", "int", "integer/decimal argument changed by a builtin call", full)
            for (name, text), r in zip(INT_EXPRS, rep[3:-1]):
                self.res["evaluations"] += 1
                g = get_val(r)
                def V(cls, what):
                    self.viol(name, cls, "%s with i=%d k=%d d=%r: %s" % (text, i, k, d, what), full)
                if g[0] in ("foreign", "bad"):
                    V(g[0], str(g[1])); continue
                key = case_hash([name, i, k, d2bits(d)])
                if name == "chr":
                    if 0 <= i <= 255:
                        if g[0] != "val" or g[1] != ("s", bytes([i])): V("value", "expected the one-byte string, got %r" % (g,))
                        else: self.res["nontrivial"].add(key)
                    else:
                        if g[0] != "err" or g[1] != self.E["OUT_OF_RANGE"]: V("range", "code outside 0..255 not rejected with OUT_OF_RANGE: %r" % (g[:2],))
                        else: self.res["nontrivial"].add(key)
                elif name == "chr_d":
                    # a decimal code: inside [0, 256) the byte of its integer part, otherwise (negative, >= 256, inf, nan) OUT_OF_RANGE
                    if d == d and 0.0 <= d < 256.0:
                        if g[0] != "val" or g[1] != ("s", bytes([int(d)])): V("value", "expected the one-byte string %r, got %r" % (bytes([int(d)]), g))
                        else: self.res["nontrivial"].add(key)
                    elif d == d and -1.0 < d < 0.0:
                        pass    # truncation toward zero makes it 0 or it is rejected: not specified
                    else:
                        if g[0] != "err" or g[1] != self.E["OUT_OF_RANGE"]: V("range", "code %r outside 0..255 not rejected with OUT_OF_RANGE: %r" % (d, g[:2]))
                        else: self.res["nontrivial"].add(key)
                elif name == "raw2":
                    if 0 <= k <= 4096 and 0 <= i <= 255:
                        if g[0] != "val" or g[1] != ("x", bytes([i]) * k): V("value", "expected %d bytes of %d, got %r" % (k, i, g[1] if g[0] == "val" else g))
                        else: self.res["nontrivial"].add(key)
                    elif 0 <= k <= 4096:
                        if g[0] != "err" or g[1] != self.E["OUT_OF_RANGE"]: V("range", "byte value outside 0..255 not rejected with OUT_OF_RANGE: %r" % (g[:2],))
                        else: self.res["nontrivial"].add(key)
                    elif g[0] != "err": V("value", "negative size accepted")
                elif name == "hex1":
                    if g[0] != "val" or g[1][0] != "s": V("type", "expected string: %r" % (g,)); continue
                    txt = g[1][1].decode("latin-1")
                    try:
                        back = int(txt, 16)
                    except ValueError:
                        V("value", "hex() output %r is not hexadecimal" % txt); continue
                    if i >= 0 and back != i: V("value", "hex(%d) = %r parses back to %d" % (i, txt, back))
                    elif i < 0 and back != (i & ((1 << 64) - 1)): V("value", "hex(%d) = %r is not the two's complement" % (i, txt))
                    else: self.res["nontrivial"].add(key)
                elif name == "hex2":
                    if g[0] == "err": continue
                    if g[0] != "val" or g[1][0] != "s": V("type", "expected string"); continue
                    txt = g[1][1].decode("latin-1")
                    try:
                        back = int(txt, 16)
                    except ValueError:
                        V("value", "hex() output %r is not hexadecimal" % txt); continue
                    if back != (i & ((1 << 64) - 1)): V("value", "hex(%d,%d) = %r parses back to %d" % (i, k, txt, back))
                    else:
                        # "optionally with the number y of leading zeros": under either reading (y = zeros added, or y = minimum number of
                        # digits) the zeros added are between 0 and max(y, 0); in particular none for y <= 0
                        minimal = "%x" % (i & ((1 << 64) - 1))
                        added = len(txt) - len(minimal)
                        if added < 0 or added > max(k, 0): V("padding", "hex(%d,%d) = %r has %d leading zeros" % (i, k, txt, added))
                        else: self.res["nontrivial"].add(key)
                elif name == "str_i":
                    if g[0] != "val" or g[1] != ("s", str(i).encode()): V("value", "str(%d) = %r" % (i, g))
                    else: self.res["nontrivial"].add(key)
                elif name == "intstr":
                    if g[0] != "val" or g[1] != ("i", i): V("value", "int(str(%d)) = %r" % (i, g))
                    else: self.res["nontrivial"].add(key)
                elif name == "numstr":
                    # num(str(d)) = d up to the printed precision: the double nearest to the %.16g rendering
                    if d != d or d in (math.inf, -math.inf):
                        continue
                    exp = float("%.16g" % d)
                    if exp in (math.inf, -math.inf):
                        continue   # DBL_MAX neighbourhood: the 16-digit rendering is itself out of the decimal range
                    dcls = "subnormal" if 0 < abs(float("%.16g" % d)) < 2.2250738585072014e-308 else "value"
                    if g[0] != "val" or g[1][0] != "n": V(dcls, "num(str(%r)) failed: %r" % (d, g))
                    elif bits2d(g[1][1]) != exp: V(dcls, "num(str(%r)) = %r, expected %r" % (d, bits2d(g[1][1]), exp))
                    else: self.res["nontrivial"].add(key)
                elif name == "str_d":
                    if g[0] != "val" or g[1][0] != "s": V("type", "str(decimal) not a string: %r" % (g,))
                elif name in ("isnum_si", "isnum_sd"):
                    if name == "isnum_sd" and (d != d or d in (math.inf, -math.inf) or float("%.16g" % d) in (math.inf, -math.inf)): continue
                    dcls = "subnormal" if (name == "isnum_sd" and 0 < abs(float("%.16g" % d)) < 2.2250738585072014e-308) else "value"
                    if g[0] != "val" or g[1] != ("b", True): V(dcls, "isnum(str(number)) is not true: %r" % (g,))
                    else: self.res["nontrivial"].add(key)
            if len(self.res["samples"]) < 4:
                self.res["samples"].append({"exprs": [t for _, t in INT_EXPRS][:4], "i": i, "k": k, "d": repr(d), "replies": [r[:40] for r in rep[3:7]]})
        return Unit(ops, check, ("int", i, k, d))

    def mut_unit(self, s, x, j, i):
        """in-place members on string/bytes with a code i at position j"""
        pre = ["new A 0", "reg A 53 s0", "reg A 58 x0", "reg A 49 i0", "reg A 4a i0"]
        units = []
        for name, text in MUT_EXPRS:
            ops = ["set A 53 %s" % enc_str(s), "set A 58 %s" % enc_bytes(x), "set A 49 %s" % enc_int(i), "set A 4a %s" % enc_int(j),
                   "pexpr A M %s" % hx(text), "eval A M", "dump A nofn"]
            full = pre + ops
            def check(rep, self=self, name=name, text=text, full=full):
                self.res["evaluations"] += 1
                if not rep[4].startswith("ok"):
                    bump(self.res, "rejected_at_compile_time"); return
                g = get_val(rep[5]); dd = parse_dump(rep[6])["syms"]
                src = s if name[0] == "s" else x
                enc = enc_str if name[0] == "s" else enc_bytes
                now = dd["S" if name[0] == "s" else "X"]["value"]
                other = dd["X" if name[0] == "s" else "S"]["value"]
                def V(cls, what):
                    self.viol(name, cls, "%s with %s=%r j=%d i=%d: %s" % (text, name[0], src, j, i, what), full)
                if other != (enc_bytes(x) if name[0] == "s" else enc_str(s)) or dd["I"]["value"] != enc_int(i) or dd["J"]["value"] != enc_int(j):
                    V("args", "an argument other than the receiver changed")
                if g[0] in ("foreign", "bad"):
                    V(g[0], str(g[1])); return
                key = case_hash([name, src.hex(), i, j])
                inrange = 0 <= i <= 255
                op = name[1:]
                posok = (0 <= j < len(src)) if op == "put" else ((0 <= j <= len(src)) if op == "insert" else True)
                if not inrange:
                    if g[0] != "err" or (g[1] != self.E["OUT_OF_RANGE"] and posok):
                        V("range", "code %d outside 0..255 not rejected with OUT_OF_RANGE: %r" % (i, g[:3]))
                    elif now != enc(src): V("rejected-but-changed", "receiver changed by a rejected call")
                    else: self.res["nontrivial"].add(key)
                    return
                if not posok:
                    if g[0] != "err": V("index", "position %d out of range accepted" % j)
                    elif now != enc(src): V("rejected-but-changed", "receiver changed by a rejected call")
                    else: self.res["nontrivial"].add(key)
                    return
                if g[0] == "err":
                    V("error-in-domain", "in-range call failed: %r" % (g,)); return
                if op == "put": exp = src[:j] + bytes([i]) + src[j + 1:]
                elif op == "insert": exp = src[:j] + bytes([i]) + src[j:]
                else: exp = src + bytes([i])
                if now != enc(exp): V("value", "receiver is %s, expected %s" % (now[:60], enc(exp)[:60]))
                else: self.res["nontrivial"].add(key)
            units.append(Unit(ops, check, (name, s, j, i)))
        return pre, units

    def on_crash(self, pre):
        def f(u, r):
            self.res["evaluations"] += 1
            # bisect the crashing eval (first crashes only)
            ev = [o for o in u.ops if o.startswith("eval")]
            sets = [o for o in u.ops if not o.startswith("eval") and not o.startswith("dump")]
            name = "?"
            if self.res["counters"].get("worker_crashes", 0) <= 8:
                for e in ev:
                    r1 = self.probe.case(pre + sets + [e])
                    if r1.crashed:
                        name = e.split()[2]; r = r1; break
            if r.sig and ("allocation-size-too-big" in r.sig or "out-of-memory" in r.sig or "bad_alloc" in r.sig or "length_error" in r.sig):
                self.res["out_of_domain"] += 1; return
            add_violation(self.res, "C10|%s|crash:%s" % (name, r.sig), "crash in %s for %s: %s" % (name, str(u.desc)[:200], r.sig), {"ops": pre + u.ops, "report": r.report[-3000:]})
        return f


def plan(tier, seed):
    n = 16
    return [{"k": k, "n": n, "seed": seed, "tier": tier} for k in range(n)]


def run_shard(desc):
    sh = Sh(desc)
    r = sh.rnd
    quick = desc["tier"] == "quick"
    # --- string builtins
    pre = sh.prelude(EXPRS)
    units = []
    nstr = 1500 if quick else 20000
    for n in range(nstr):
        s = sh.rstr(); x = sh.rstr()
        if r.random() < 0.25: s = sh.rnumstr()
        t = sh.rsep(s); u = sh.rsep(s)
        k = r.random()
        L = len(s)
        near = [0, 1, L - 1, L, L + 1, -1, -L, -L - 1, L // 2]
        i = r.choice(near) if k < 0.6 else r.choice(POS)
        if len(t) > 0 and r.random() < 0.3:
            # start positions around real occurrences and around the tail
            occ = s.find(t)
            i = r.choice([occ, occ + 1, occ - 1, L - len(t), L - len(t) - 1, L - len(t) + 1])
        j = r.choice(near) if r.random() < 0.6 else r.choice(POS)
        nulls = ""
        if r.random() < 0.08:
            nulls = r.choice(["s", "t", "u", "x", "i", "j", "ij", "st"])
        units.append(sh.string_unit(pre, s, t, u, x, i, j, nulls))
    run_units(sh.probe, pre, units, sh.res, sh.on_crash(pre), chunk=40)
    # --- integer / decimal conversions
    pre = sh.prelude(INT_EXPRS)
    units = []
    nint = 2000 if quick else 30000
    from props.c03 import int_lattice, dbl_lattice
    IL = int_lattice(); DL = dbl_lattice()
    for n in range(nint):
        k = r.random()
        i = r.choice(CODES) if k < 0.3 else (r.choice(IL) if k < 0.6 else (r.getrandbits(64) - (1 << 63)))
        kk = r.choice([0, 1, 2, 3, 8, 15, 16, 17, 64, 100, 4096, -1, -5])
        d = r.choice(DL) if r.random() < 0.3 else (bits2d(r.getrandbits(64)) if r.random() < 0.5 else r.uniform(-1e9, 1e9))
        units.append(sh.int_unit(pre, i, kk, d))
    run_units(sh.probe, pre, units, sh.res, sh.on_crash(pre), chunk=60)
    # --- in-place members with codes
    nm = 300 if quick else 5000
    for n in range(nm):
        s = sh.rstr()[:40]; x = sh.rstr()[:40]
        L = len(s) if r.random() < 0.5 else len(x)
        j = r.choice([0, 1, L - 1, L, L + 1, -1, 2 ** 31, 2 ** 32 + 1, IMAX, IMIN])
        i = r.choice(CODES)
        pre, units = sh.mut_unit(s, x, j, i)
        run_units(sh.probe, pre, units, sh.res, sh.on_crash(pre), chunk=6)
    sh.probe.close()
    return sh.res


def replay(wit):
    r = generic_replay(wit)
    return 1 if r.crashed else 0
