"""C15 — the C API honours its ownership and result contract for every call sequence.

A pure-C executor (harness/vapi.c, only blocc/bloc_capi.h) runs one generated call sequence per process under
ASan+UBSan with LeakSanitizer on; a python state-machine model of handles (contexts, clones, symbols, values,
expressions, executables, library-owned pointers with invalidation epochs) predicts every reply.  After the
model has freed everything the caller owns the process exits: any LeakSanitizer report is attributed to that
sequence."""
import os, random, subprocess, re
from vlib import *
import corpus

PROPERTY = "C15"
LEVEL = "exploration"
RULE = ("one evaluation = one generated API call sequence (8-40 calls respecting the documented preconditions) executed in its own process; each "
        "reply is compared with the handle model; library-owned pointers are re-read after interleaved non-invalidating calls; at exit LeakSanitizer "
        "must report nothing; non-trivial = the sequence contained at least one failing parse or run and at least one value round trip between the "
        "host and a script; distinct = sequence hashes")
ASSUMPTIONS = ["documented preconditions are respected by the generator (no use after free, execute2 only with a clone of the parse context, executables of a purged context are only freed)",
               "after bloc_ctx_store_variable the caller's value is only freed (its payload may have been moved)", "the error record is only asserted after failing calls; errno 0 is accepted for the end-of-input parse error (EXC_PARSE_EOF == 0)",
               "LeakSanitizer (gcc) at process exit; gcc ASan/UBSan runtimes"]

MAJ = {"u": 0, "b": 1, "i": 2, "n": 3, "s": 4, "o": 5, "x": 6, "r": 7, "p": 8, "m": 9}
ASAN_LEAK = ASAN_OPTS.replace("detect_leaks=0", "detect_leaks=1")

CORPUS = []
BAD_TEXTS = ['a = 1 +', 'a = "x".concat("y").bad(1);', 'b = (1 + ;', 'for i in 1 to loop end loop;', 'function f( return integer is begin return 1; end;', 'x = tab(1, ).count();', 'print 1 2 3 +;',
             'a = substr("abc", 1, 2, 3, 4);', 'if true then a = 1; else', 'begin a = 1; exception when then nop; end;', 'a = b_undefined + 1;', 'a = 5; a.concat(1);', 'a = 17 % "abc";', 'r = 17 % ("s" + "x");',
             'a = tup(1, tup(2));', 't = tab(2, 1); t.put(0, "s");', 'a = (1 + 2)) * 3;', 'while true loop', 'return 1 +;', 'a = not 5;', 'forall e in 5 loop nop; end loop;',
             'a = max(1);', 'import "x";', 'include "y";', 'a = $b;', 'a = 99999999999999999999;', 'a = 1e999;', 'x = tup(1,2)@99999999999999999999;', 'function g(a b) return integer is begin return 1; end;']
BAD_EXPRS = ['1 +', '(1', 'substr("a"', 'undefined_name + 1', '1 % "s"', '"a".bad()', 'tab(1,)', '', ')', 'tup(1)@0', 'max(1, 2, 3, 4)', 'not "s"', '17 % ("s" + "x")']
RT_ERRORS = [('a = 1 / 0;', "DIVIDE_BY_ZERO"), ('raise my_error;', "USER"), ('t = tab(1, 1); a = t.at(5);', "INDEX_RANGE"), ('a = int("zz");', "STRING_TO_NUM"), ('a = chr(300);', "OUT_OF_RANGE"),
             ('function boom(a) return integer is begin return a * 2; end; b = boom("s");', None), ('for i in 1 to 3 loop forall e in tab(2, 1) loop raise deep; end loop; end loop;', "USER"),
             ('begin raise e1; exception when e1 then a = 1 / 0; end;', "DIVIDE_BY_ZERO")]


class Seq:
    def __init__(self, rnd):
        self.r = rnd
        self.ops = []; self.checks = []          # checks: (op index, function(reply) -> None or (cls, description))
        self.nctx = 0; self.nv = 0; self.nl = 0; self.ns = 0; self.ne = 0; self.nx = 0
        self.ctx = {}       # id -> {"vars": {name: model value}, "syms": {name: sid}, "alive": True, "epoch": 0, "parent": None, "purged": False, "stopped": False}
        self.vals = {}      # vid -> model value or "moved"
        self.exprs = {}; self.execs = {}
        self.lptr = {}      # lid -> (ctx, epoch, dump string)
        self.had_failure = False; self.had_roundtrip = False
        self.leakmarks = []

    def add(self, op, check=None):
        self.ops.append(op)
        if check: self.checks.append((len(self.ops) - 1, check))
        return len(self.ops) - 1

    def expect(self, op, want, cls):
        def chk(rep, want=want, cls=cls, op=op):
            if rep != want: return (cls, "`%s` replied `%s`, the model says `%s`" % (op[:80], rep[:100], want[:100]))
        self.add(op, chk)

    # ---- model value helpers: ("null", maj, ndim) | ("b",bool) | ("i",int) | ("n",bits) | ("s",bytes) | ("x",bytes) | ("m",a,b)
    def rnd_value(self):
        r = self.r; k = r.random()
        if k < 0.15: return ("null", r.choice(["u", "b", "i", "n", "s", "x", "r", "m"]), 0)
        if k < 0.25: return ("b", r.random() < 0.5)
        if k < 0.45: return ("i", r.choice([0, 1, -1, 255, 2 ** 63 - 1, -2 ** 63, r.randint(-10 ** 6, 10 ** 6)]))
        if k < 0.6: return ("n", d2bits(r.choice([0.0, 2.5, -0.125, 1e300, float("inf"), r.uniform(-1e3, 1e3)])))
        if k < 0.8: return ("s", r.choice([b"", b"abc", b"with space", b"q\"uote", b"\xc3\xa9\xff\x80", b"x" * 300]))
        if k < 0.95: return ("x", r.choice([b"", b"AB", b"\x00\x01\xff", bytes(range(40))]))
        return ("m", d2bits(1.5), d2bits(-2.0))

    def dump_of(self, v):
        k = v[0]
        if k == "null": return "Z%d.%d" % (MAJ[v[1]], v[2])
        if k == "b": return "b:%d" % (1 if v[1] else 0)
        if k == "i": return "i:%d" % v[1]
        if k == "n": return "n:%016x" % v[1]
        if k == "s": return "s:" + (v[1].hex() if v[1] else "-")
        if k == "x": return "x:" + (v[1].hex() if v[1] else "-")
        if k == "m": return "m:%016x%016x" % (v[1], v[2])
        if k == "t": return "t%d.%d[%s]" % (MAJ[v[1]], v[2], ",".join(self.dump_of(e) for e in v[3]))
        if k == "r": return "r(%s)" % ",".join(self.dump_of(e) for e in v[1])

    def create(self, v):
        vid = self.nv; self.nv += 1
        k = v[0]
        if k == "null": op = "v_null %d %d" % (vid, MAJ[v[1]])
        elif k == "b": op = "v_bool %d %d" % (vid, 1 if v[1] else 0)
        elif k == "i": op = "v_int %d %d" % (vid, v[1])
        elif k == "n": op = "v_num %d %016x" % (vid, v[1])
        elif k == "s":
            if b"\x00" in v[1]: v = ("s", v[1].replace(b"\x00", b"0"))
            op = "v_lit %d %s" % (vid, v[1].hex() if v[1] else "-")
        elif k == "x": op = "v_tab %d %s" % (vid, v[1].hex() if v[1] else "-")
        else: op = "v_img %d %016x %016x" % (vid, v[1], v[2])
        self.expect(op, "ok", "create")
        self.vals[vid] = v
        return vid

    def acc_expect(self, v):
        """expected reply of `acc`: typed accessors succeed exactly on the matching type; NULL data for a null value"""
        k = v[0]
        if k == "null": maj, ndim, null = v[1], v[2], True
        elif k == "t": maj, ndim, null = v[1], v[2], False
        else: maj, ndim, null = k, 0, False
        N = "N" if null else ""
        f = {}
        for c in "binsxm": f[c] = "1" + N if (maj == c and ndim == 0) else "0"
        f["r"] = "1" + N if (maj == "r" and ndim == 0) else "0"
        f["t"] = "1" + N if ndim > 0 else "0"
        return "acc b=%s i=%s n=%s s=%s x=%s t=%s r=%s m=%s" % (f["b"], f["i"], f["n"], f["s"], f["x"], f["t"], f["r"], f["m"])

    def inspect(self, handle, v, cls="value"):
        self.expect("dumpv %s" % handle, "val " + self.dump_of(v), cls + "|content")
        want = self.acc_expect(v)
        if v[0] == "x" and len(v[1]) == 0:
            # an empty (non-null) bytes array: the data pointer of an empty vector may be NULL, its length is 0
            def chk(rep, want=want, handle=handle):
                if rep not in (want, want.replace("x=1", "x=1N")): return (cls + "|accessors", "`acc %s` replied `%s`, the model says `%s`" % (handle, rep, want))
            self.add("acc %s" % handle, chk)
        else:
            self.expect("acc %s" % handle, want, cls + "|accessors")

    def lit(self, v):
        """BLOC literal text for a model value (script side)"""
        k = v[0]
        if k == "b": return "true" if v[1] else "false"
        if k == "i": return str(v[1]) if v[1] >= 0 else ("(%d)" % v[1] if v[1] > -2 ** 63 else "(-9223372036854775807 - 1)")
        if k == "n":
            d = bits2d(v[1])
            if d != d or d in (float("inf"), float("-inf")): return None
            return repr(d) if d >= 0 else "(%r)" % d
        if k == "s": return '"' + v[1].decode("latin-1").replace("\\", "\\\\").replace('"', '\\"') + '"'
        return None

    def leakcheck(self, idx, text):
        """LeakSanitizer is asked right after the failing call, so that a leak is attributed to that very text"""
        n = len(self.leakmarks)
        self.leakmarks.append((n, idx, text))
        self.add("leakcheck %d" % n)

    # ---- actions -------------------------------------------------------------------------------
    def a_new_ctx(self):
        c = self.nctx; self.nctx += 1
        self.expect("ctx_new %d" % c, "ok", "ctx")
        self.ctx[c] = {"vars": {}, "syms": {}, "alive": True, "epoch": 0, "parent": None, "purged": False}
        return c

    def live_ctx(self):
        return [c for c, d in self.ctx.items() if d["alive"]]

    def bump(self, c):
        self.ctx[c]["epoch"] += 1

    def a_value_lifecycle(self):
        v = self.rnd_value(); vid = self.create(v)
        self.inspect("V%d" % vid, v)
        r = self.r
        if r.random() < 0.5:
            k = v[0] if v[0] != "null" else v[1]
            nd = v[2] if v[0] == "null" else 0
            if r.random() < 0.5:
                nv = r.choice([b"new", b"", None])
                ok = (k in ("s", "u")) and nd == 0
                self.expect("v_assign_lit V%d %s" % (vid, "NULL" if nv is None else (nv.hex() or "-")), "1" if ok else "0", "assign")
                if ok: v = ("null", "s", 0) if nv is None else ("s", nv)
            else:
                nv = r.choice([b"\x01\x02", b"", None])
                ok = (k in ("x", "u")) and nd == 0
                self.expect("v_assign_tab V%d %s" % (vid, "NULL" if nv is None else (nv.hex() or "-")), "1" if ok else "0", "assign")
                if ok: v = ("null", "x", 0) if nv is None else ("x", nv)
            self.vals[vid] = v
            self.inspect("V%d" % vid, v)
        if r.random() < 0.3:
            self.expect("v_assign_null V%d" % vid, "ok", "assign")
            if v[0] != "null": v = ("null", v[0], 0)
            self.vals[vid] = v
            self.inspect("V%d" % vid, v)
        return vid

    def a_store_load(self, c):
        r = self.r; d = self.ctx[c]
        name = r.choice(["HA", "HB", "HC", "HD"])
        v = self.rnd_value()
        if v[0] == "null" and v[1] in ("r", "m", "u"): v = ("i", 7)
        vid = self.create(v)
        if name not in d["syms"]:
            sid = self.ns; self.ns += 1
            k = v[0] if v[0] != "null" else v[1]
            self.expect("sym_reg %d %d %s %d 0" % (c, sid, name.encode().hex(), MAJ[k]), "ok", "symbol"); self.bump(c)
            d["syms"][name] = sid
        sid = d["syms"][name]
        self.expect("store %d %d %d" % (c, sid, vid), "1", "store")
        d["vars"][name] = v
        self.vals[vid] = "moved"
        self.expect("v_free %d" % vid, "ok", "free"); del self.vals[vid]
        lid = self.nl; self.nl += 1
        self.expect("load %d %d %d" % (c, sid, lid), "ok", "load")
        self.inspect("L%d" % lid, v, "load")
        self.lptr[lid] = (c, d["epoch"], v)
        # what the script sees
        eid = self.ne; self.ne += 1
        self.expect("pexpr %d %d %s" % (c, eid, ("typeof(%s)\n" % name.lower()).encode().hex()), "ok", "parse"); self.bump(c)
        l2 = self.nl; self.nl += 1
        self.expect("eval %d %d %d" % (c, eid, l2), "ok", "eval"); self.bump(c)
        k = v[0] if v[0] != "null" else v[1]
        tn = {"b": "boolean", "i": "integer", "n": "decimal", "s": "string", "x": "bytes", "m": "complex", "u": "undefined", "r": "tuple"}[k]
        self.expect("dumpv L%d" % l2, "val s:" + tn.encode().hex(), "script-sees-host-value|typeof")
        self.expect("efree %d" % eid, "ok", "free")
        if self.lit(v) is not None:
            eid = self.ne; self.ne += 1
            self.expect("pexpr %d %d %s" % (c, eid, ("%s == %s\n" % (name.lower(), self.lit(v))).encode("latin-1").hex()), "ok", "parse"); self.bump(c)
            l3 = self.nl; self.nl += 1
            self.expect("eval %d %d %d" % (c, eid, l3), "ok", "eval"); self.bump(c)
            if not (v[0] == "n" and (bits2d(v[1]) != bits2d(v[1]))):
                self.expect("dumpv L%d" % l3, "val b:1", "script-sees-host-value|equality")
            self.expect("efree %d" % eid, "ok", "free")
        self.had_roundtrip = True
        # in-place update through the library-owned pointer (bloc_assign_*): the variable holds the new value, it is still the variable
        # (a script that reads it twice does not consume it), and its type is unchanged
        if v[0] in ("s", "x") and r.random() < 0.6:
            nv = (v[0], r.choice([b"assigned", b"a", b"in place " * 20]))
            if v[0] == "s": self.expect("v_assign_lit L%d %s" % (lid, nv[1].hex()), "1", "assign")
            else: self.expect("v_assign_tab L%d %s" % (lid, nv[1].hex()), "1", "assign")
            d["vars"][name] = nv
            self.inspect("L%d" % lid, nv, "assign-in-place")
            xid = self.nx; self.nx += 1
            tag = self.nx
            rd = "rq%d = %s; rw%d = %s; rz%d = %s.count();" % (tag, name.lower(), tag, name.lower(), tag, name.lower())
            self.expect("pexec %d %d %s" % (c, xid, rd.encode().hex()), "ok", "parse"); self.bump(c)
            self.expect("exec %d" % xid, "1", "run"); self.bump(c)
            self.expect("xfree %d" % xid, "ok", "free")
            l4 = self.nl; self.nl += 1
            self.expect("load %d %d %d" % (c, sid, l4), "ok", "load")
            self.expect("dumpv L%d" % l4, "val " + self.dump_of(nv), "assign-in-place|variable-consumed-by-read")
            self.lptr = {k2: v2 for k2, v2 in self.lptr.items() if v2[0] != c}
            self.lptr[l4] = (c, d["epoch"], nv)

    def script_view(self, c, name, v, cls):
        """what a script parsed now sees of the host-stored variable `name`: its type, its value, and an expression that needs that type"""
        k = v[0] if v[0] != "null" else v[1]
        tn = {"b": "boolean", "i": "integer", "n": "decimal", "s": "string", "x": "bytes", "m": "complex"}[k]
        texts = [("typeof(%s)" % name.lower(), "val s:" + tn.encode().hex())]
        if v[0] != "null" and self.lit(v) is not None and not (v[0] == "n" and bits2d(v[1]) != bits2d(v[1])):
            texts.append(("%s == %s" % (name.lower(), self.lit(v)), "val b:1"))
            use = {"s": "upper(%s) == upper(%s)", "i": "(%s + 0) == %s", "n": "(%s + 0.0) == %s", "b": "(%s and true) == %s"}[k]
            texts.append((use % (name.lower(), self.lit(v)), "val b:1"))
        for t, want in texts:
            eid = self.ne; self.ne += 1
            self.expect("pexpr %d %d %s" % (c, eid, (t + "\n").encode("latin-1").hex()), "ok", cls + "|parse"); self.bump(c)
            lid = self.nl; self.nl += 1
            self.expect("eval %d %d %d" % (c, eid, lid), "ok", cls + "|eval"); self.bump(c)
            self.expect("dumpv L%d" % lid, want, cls + "|" + t.split("(")[0].split(" ")[0].replace(name.lower(), "v"))
            self.expect("efree %d" % eid, "ok", "free")

    def a_retype(self, c):
        """the host registers a name again with another type (before or after a purge): scripts parsed afterwards see the type and the
        value the host stored last, whatever was registered under that name or that slot before"""
        r = self.r; d = self.ctx[c]
        def scalar():
            while True:
                v = self.rnd_value()
                if v[0] in ("b", "i", "n", "s", "x"): return v
        self.nrt = getattr(self, "nrt", 0) + 1
        X = "RX%d" % self.nrt; Y = r.choice([X, "RY%d" % self.nrt])
        v1 = scalar()
        while True:
            v2 = scalar()
            if v2[0] != v1[0]: break
        def reg_store(name, v, store=True):
            sid = self.ns; self.ns += 1
            self.expect("sym_reg %d %d %s %d 0" % (c, sid, name.encode().hex(), MAJ[v[0]]), "ok", "symbol"); self.bump(c)
            d["syms"][name] = sid
            if store:
                vid = self.create(v)
                self.expect("store %d %d %d" % (c, sid, vid), "1", "store")
                d["vars"][name] = v; self.vals[vid] = "moved"
                self.expect("v_free %d" % vid, "ok", "free"); del self.vals[vid]
        reg_store(X, v1, store=r.random() < 0.6)
        if r.random() < 0.3: self.script_view(c, X, v1, "retype|first") if X in d["vars"] else None
        reg_store(X, v2)
        if r.random() < 0.5: self.script_view(c, X, v2, "retype|second")
        if r.random() < 0.7:
            self.a_purge(c, reuse=False)
            v3 = scalar()
            reg_store(Y, v3)
            if r.random() < 0.5:
                eid = self.ne; self.ne += 1
                self.expect("pexpr %d %d %s" % (c, eid, b"1\n".hex()), "ok", "parse"); self.bump(c)
                self.expect("efree %d" % eid, "ok", "free")
            self.script_view(c, Y, v3, "retype|after-purge")
        self.lptr = {k2: v2_ for k2, v2_ in self.lptr.items() if v2_[0] != c}
        self.had_roundtrip = True

    def a_script_write(self, c):
        r = self.r; d = self.ctx[c]
        name = r.choice(["sa", "sb", "sc"])
        kind = r.random()
        if kind < 0.5:
            v = r.choice([("i", 42), ("s", b"from script"), ("n", d2bits(0.5)), ("b", True), ("null", "i", 0), ("null", "s", 0)])
            text = "%s = %s;" % (name, {"null": {"i": "int()", "s": "str()"}.get(v[1], "null")}.get(v[0]) if v[0] == "null" else self.lit(v))
            mv = v
        elif kind < 0.65:
            text = "%s = tab(3, 7); %s.put(1, 9);" % (name, name); mv = ("t", "i", 1, [("i", 7), ("i", 9), ("i", 7)])
        elif kind < 0.72:
            # a table OF TUPLES has major type tuple but is a table: only bloc_table may accept it
            text = '%s = tab(2, tup(1, "x"));' % name; mv = ("t", "r", 1, [("r", [("i", 1), ("s", b"x")]), ("r", [("i", 1), ("s", b"x")])])
        elif kind < 0.76:
            text = '%s = tab(2, "s");' % name; mv = ("t", "s", 1, [("s", b"s"), ("s", b"s")])
        elif kind < 0.8:
            text = "%s = tab(2, tab(1, true));" % name; mv = ("t", "b", 2, [("t", "b", 1, [("b", True)]), ("t", "b", 1, [("b", True)])])
        else:
            text = '%s = tup(1, "two", 2.5, true, raw(2, 65));' % name; mv = ("r", [("i", 1), ("s", b"two"), ("n", d2bits(2.5)), ("b", True), ("x", b"AA")])
        xid = self.nx; self.nx += 1
        self.expect("pexec %d %d %s" % (c, xid, text.encode().hex()), "ok", "parse"); self.bump(c)
        self.execs[xid] = c
        self.expect("exec %d" % xid, "1", "run"); self.bump(c)
        d["vars"][name.upper()] = mv
        sid = self.ns; self.ns += 1
        self.expect("sym_find %d %d %s" % (c, sid, name.upper().encode().hex()), "found", "symbol")
        d["syms"][name.upper()] = sid
        lid = self.nl; self.nl += 1
        self.expect("load %d %d %d" % (c, sid, lid), "ok", "load")
        self.expect("dumpv L%d" % lid, "val " + self.dump_of(mv), "host-sees-script-value|content")
        self.expect("acc L%d" % lid, self.acc_expect(mv), "host-sees-script-value|accessors")
        self.lptr[lid] = (c, d["epoch"], mv)
        self.had_roundtrip = True
        if r.random() < 0.7:
            self.expect("xfree %d" % xid, "ok", "free"); del self.execs[xid]

    def a_pointer_lifetime(self):
        """re-read library-owned pointers whose context has not parsed/run/evaluated/registered/purged since"""
        for lid, (c, ep, v) in list(self.lptr.items()):
            d = self.ctx.get(c)
            if d and d["alive"] and d["epoch"] == ep:
                self.expect("dumpv L%d" % lid, "val " + self.dump_of(v), "library-owned-pointer-changed")
            else:
                del self.lptr[lid]

    def a_bad_parse(self, c):
        r = self.r
        self.had_failure = True
        if r.random() < 0.5:
            # a harvested text corrupted at token level (only checked when really rejected)
            base = CORPUS or corpus.harvest(deterministic=True)
            CORPUS[:] = base
            t = r.choice(base)
            for _ in range(r.randint(1, 2)): t = corpus.mutate(t, r)
            if "\x00" in t or corpus.FORBIDDEN.search(t): t = "a = 1 +"
            xid = self.nx; self.nx += 1
            def chk2(rep, t=t):
                if rep.startswith("ok"): return None
                m = re.search(r"errno=(-?\d+) msg=(\S+)", rep)
                if not m or m.group(2) in ("NULL", "-"): return ("failed-parse|no-error-text", "rejected `%s` but bloc_strerror() is empty: %s" % (t[:80], rep[:80]))
            idx = self.add("pexec %d %d %s" % (c, xid, t.encode("utf-8", "replace").hex() or "-"), chk2); self.bump(c)
            self.leakcheck(idx, t)
            # if it was accepted it must be freed: xfree on a NULL handle is answered by the harness without calling the API
            self.add("xfree %d" % xid, None)
            for k2 in list(self.ctx[c]["vars"]): pass
            return
        if r.random() < 0.6:
            t = r.choice(BAD_TEXTS); xid = self.nx; self.nx += 1
            nopos = " n" if r.random() < 0.3 else ""
            def chk(rep, t=t):
                if not rep.startswith("NULL"): return ("failed-parse|returned-handle", "`%s` was accepted: %s" % (t, rep[:60]))
                m = re.search(r"errno=(-?\d+) msg=(\S+)", rep)
                if not m or m.group(2) in ("NULL", "-"): return ("failed-parse|no-error-text", "rejected `%s` but bloc_strerror() is empty: %s" % (t, rep[:80]))
            idx = self.add("pexec %d %d %s%s" % (c, xid, t.encode().hex(), nopos), chk); self.bump(c)
            self.leakcheck(idx, t)
        else:
            t = r.choice(BAD_EXPRS); eid = self.ne; self.ne += 1
            def chk(rep, t=t):
                if not rep.startswith("NULL"): return ("failed-parse|returned-handle", "expression `%s` was accepted: %s" % (t, rep[:60]))
                m = re.search(r"errno=(-?\d+) msg=(\S+)", rep)
                if not m or m.group(2) in ("NULL", "-"): return ("failed-parse|no-error-text", "rejected expression `%s` but bloc_strerror() is empty" % t)
            idx = self.add("pexpr %d %d %s" % (c, eid, (t + "\n").encode().hex()), chk); self.bump(c)
            self.leakcheck(idx, t)

    def a_runtime_error(self, c, E):
        r = self.r
        t, name = r.choice(RT_ERRORS)
        xid = self.nx; self.nx += 1
        self.expect("pexec %d %d %s" % (c, xid, t.encode().hex()), "ok", "parse"); self.bump(c)
        def chk(rep, t=t, name=name):
            if not rep.startswith("0"): return ("failed-run|returned-true", "`%s` did not fail: %s" % (t, rep[:60]))
            m = re.search(r"errno=(-?\d+) msg=(\S+)", rep)
            if not m or m.group(2) in ("NULL", "-") or m.group(1) == "0": return ("failed-run|no-error-record", "`%s` failed but errno/strerror are not set: %s" % (t, rep[:80]))
            if name and int(m.group(1)) != E[name]: return ("failed-run|wrong-errno", "`%s`: errno %s, expected %s (%d)" % (t, m.group(1), name, E[name]))
        self.add("exec %d" % xid, chk); self.bump(c)
        self.expect("xfree %d" % xid, "ok", "free")
        for nm in ("A", "B", "T", "I", "E"):
            self.ctx[c]["vars"].pop(nm, None)
        self.had_failure = True
        # the context is still usable
        self.a_return_value(c)

    def a_return_value(self, c):
        r = self.r
        v = r.choice([("i", 5), ("s", b"ret"), ("n", d2bits(1.25)), ("b", False)])
        xid = self.nx; self.nx += 1
        self.expect("pexec %d %d %s" % (c, xid, ("return %s;" % self.lit(v)).encode().hex()), "ok", "parse"); self.bump(c)
        self.expect("exec %d" % xid, "1", "run"); self.bump(c)
        vid = self.nv; self.nv += 1
        self.expect("drop %d %d" % (c, vid), "ok", "returned")
        self.inspect("V%d" % vid, v, "returned")
        self.expect("v_free %d" % vid, "ok", "free")
        vid2 = self.nv; self.nv += 1
        self.expect("drop %d %d" % (c, vid2), "NULL", "returned|second-drop")
        # the stop condition is held after return: the next run is stopped ahead until reset
        x2 = self.nx; self.nx += 1
        self.expect("pexec %d %d %s" % (c, x2, 'print "ran";'.encode().hex()), "ok", "parse"); self.bump(c)
        self.expect("exec %d" % x2, "1", "run"); self.bump(c)
        self.expect("out %d" % c, "out ", "stop-condition-held-after-return")
        self.expect("rstop %d" % c, "ok", "reset")
        self.expect("exec %d" % x2, "1", "run"); self.bump(c)
        self.expect("out %d" % c, "out " + b"ran\n".hex(), "run-after-reset-stop")
        self.expect("xfree %d" % xid, "ok", "free"); self.expect("xfree %d" % x2, "ok", "free")

    def a_return_untaken(self, c):
        """a returned value the host never takes stays owned by the library: it must go with the next return, with purge, or with the context"""
        r = self.r
        v = r.choice([("s", b"untaken " * 40), ("i", 77), ("s", b"u")])
        xid = self.nx; self.nx += 1
        self.expect("pexec %d %d %s" % (c, xid, ("return %s;" % self.lit(v)).encode().hex()), "ok", "parse"); self.bump(c)
        self.expect("exec %d" % xid, "1", "run"); self.bump(c)
        self.expect("rstop %d" % c, "ok", "reset")
        self.expect("xfree %d" % xid, "ok", "free")
        k = r.random()
        if k < 0.4:
            self.a_purge(c)
        elif k < 0.7:
            x2 = self.nx; self.nx += 1
            self.expect("pexec %d %d %s" % (c, x2, "return 5;".encode().hex()), "ok", "parse"); self.bump(c)
            self.expect("exec %d" % x2, "1", "run"); self.bump(c)
            vid = self.nv; self.nv += 1
            self.expect("drop %d %d" % (c, vid), "ok", "returned")
            self.inspect("V%d" % vid, ("i", 5), "returned")
            self.expect("v_free %d" % vid, "ok", "free")
            self.expect("rstop %d" % c, "ok", "reset")
            self.expect("xfree %d" % x2, "ok", "free")
        # else: left in place until the context is freed

    def a_break(self, c):
        xid = self.nx; self.nx += 1
        self.expect("pexec %d %d %s" % (c, xid, 'print "never";'.encode().hex()), "ok", "parse"); self.bump(c)
        self.expect("brk %d" % c, "ok", "break")
        self.expect("exec %d" % xid, "1", "run"); self.bump(c)
        self.expect("out %d" % c, "out ", "break-stops-run")
        self.expect("rstop %d" % c, "ok", "reset")
        self.expect("exec %d" % xid, "1", "run"); self.bump(c)
        self.expect("out %d" % c, "out " + b"never\n".hex(), "run-after-break-reset")
        self.expect("xfree %d" % xid, "ok", "free")

    def a_clone(self, c):
        d = self.ctx[c]
        # the program is compiled in the original first: a clone taken afterwards knows its symbols (execute2's precondition)
        xid = self.nx; self.nx += 1
        # the program also reads every inherited variable twice (a read must not consume it, in the clone or in the original)
        tagc = self.nx
        srcs = [nm for nm in d["vars"] if not nm.startswith("QQ") and not nm.startswith("WW")][:4]
        readers = "".join("qq%d_%d = %s; ww%d_%d = %s;" % (tagc, i, nm.lower(), tagc, i, nm.lower()) for i, nm in enumerate(srcs))
        self.expect("pexec %d %d %s" % (c, xid, ('cl = 77; ' + readers + ' print "in clone";').encode().hex()), "ok", "parse"); self.bump(c)
        # a function defined in the original (several body statements) and a program calling it, both compiled before the clone is taken
        fn = "cf%d" % tagc; xdef = self.nx; self.nx += 1; xcall = self.nx; self.nx += 1
        self.expect("pexec %d %d %s" % (c, xdef, ("function %s(n:integer) return integer is begin s = 0; for i in 1 to n loop s = s + i; end loop; return s; end;" % fn).encode().hex()), "ok", "parse"); self.bump(c)
        self.expect("exec %d" % xdef, "1", "run"); self.bump(c)
        self.expect("pexec %d %d %s" % (c, xcall, ("fr%d = %s(10); print fr%d;" % (tagc, fn, tagc)).encode().hex()), "ok", "parse"); self.bump(c)
        n = self.nctx; self.nctx += 1
        self.expect("ctx_clone %d %d" % (c, n), "ok", "clone")
        self.ctx[n] = {"vars": dict(d["vars"]), "syms": {}, "alive": True, "epoch": 0, "parent": c, "purged": False}
        # the clone starts with copies of the variables
        for name, v in list(d["vars"].items())[:3]:
            sid = self.ns; self.ns += 1
            self.expect("sym_find %d %d %s" % (n, sid, name.encode().hex()), "found", "clone|symbol")
            lid = self.nl; self.nl += 1
            self.expect("load %d %d %d" % (n, sid, lid), "ok", "load")
            self.expect("dumpv L%d" % lid, "val " + self.dump_of(v), "clone|copied-variable")
        # execute2: a program compiled in the original runs in the clone
        self.expect("exec2 %d %d" % (n, xid), "1", "run"); self.bump(n)
        self.expect("out %d" % n, "out " + b"in clone\n".hex(), "clone|execute2-output")
        self.expect("out %d" % c, "out ", "clone|original-output-untouched")
        sid = self.ns; self.ns += 1
        self.expect("sym_find %d %d %s" % (n, sid, b"CL".hex()), "found", "clone|symbol")
        lid = self.nl; self.nl += 1
        self.expect("load %d %d %d" % (n, sid, lid), "ok", "load")
        self.expect("dumpv L%d" % lid, "val i:77", "clone|execute2-variable")
        self.ctx[n]["vars"]["CL"] = ("i", 77)
        # inherited variables are intact after having been read, in the clone and in the original
        for cc in (n, c):
            for name, v in [(nm, d["vars"][nm]) for nm in srcs]:
                sid = self.ns; self.ns += 1
                self.expect("sym_find %d %d %s" % (cc, sid, name.encode().hex()), "found", "clone|symbol")
                lid = self.nl; self.nl += 1
                self.expect("load %d %d %d" % (cc, sid, lid), "ok", "load")
                self.expect("dumpv L%d" % lid, "val " + self.dump_of(v), "clone|variable-consumed-by-read")
        for i, name in enumerate(srcs):
            self.ctx[n]["vars"]["QQ%d_%d" % (tagc, i)] = d["vars"][name]; self.ctx[n]["vars"]["WW%d_%d" % (tagc, i)] = d["vars"][name]
        self.expect("xfree %d" % xid, "ok", "free")
        # a stop request is private to the context it was made on: with a stop pending on the ORIGINAL, the clone still runs the
        # function (through an executable compiled by the original and through an expression of its own); with a stop pending on
        # the CLONE, a program run for the clone prints nothing while the original still computes
        mode = self.r.choice(["none", "orig-stopped", "clone-stopped"])
        def call_by_expr(cc, cls):
            eid = self.ne; self.ne += 1
            self.expect("pexpr %d %d %s" % (cc, eid, ("%s(10)\n" % fn).encode().hex()), "ok", "parse"); self.bump(cc)
            lid = self.nl; self.nl += 1
            self.expect("eval %d %d %d" % (cc, eid, lid), "ok", "eval"); self.bump(cc)
            self.expect("dumpv L%d" % lid, "val i:55", cls)
            self.expect("efree %d" % eid, "ok", "free")
        if mode == "orig-stopped": self.expect("brk %d" % c, "ok", "break")
        if mode == "clone-stopped":
            self.expect("brk %d" % n, "ok", "break")
            self.expect("exec2 %d %d" % (n, xcall), "1", "run"); self.bump(n)
            self.expect("out %d" % n, "out ", "clone|break-stops-run")
            call_by_expr(c, "clone|stop-of-clone-reaches-original")
            self.expect("rstop %d" % n, "ok", "reset")
        self.expect("exec2 %d %d" % (n, xcall), "1", "run"); self.bump(n)
        self.expect("out %d" % n, "out " + b"55\n".hex(), "clone|function-call|" + mode)
        call_by_expr(n, "clone|function-call-by-expression|" + mode)
        if mode == "orig-stopped": self.expect("rstop %d" % c, "ok", "reset")
        self.ctx[n]["vars"]["FR%d" % tagc] = ("i", 55)
        self.expect("xfree %d" % xcall, "ok", "free"); self.expect("xfree %d" % xdef, "ok", "free")
        return n

    def a_purge(self, c, reuse=True):
        d = self.ctx[c]
        for xid, cc in list(self.execs.items()):
            if cc == c:
                self.expect("xfree %d" % xid, "ok", "free"); del self.execs[xid]
        self.expect("ctx_purge %d" % c, "ok", "purge"); self.bump(c)
        for name in list(d["vars"])[:2]:
            sid = self.ns; self.ns += 1
            self.expect("sym_find %d %d %s" % (c, sid, name.encode().hex()), "NULL", "purge|symbol-survived")
        d["vars"] = {}; d["syms"] = {}
        # the purged context is reusable
        if reuse: self.a_script_write(c)

    def finish(self):
        r = self.r
        for xid in list(self.execs):
            self.expect("xfree %d" % xid, "ok", "free")
        for vid, v in list(self.vals.items()):
            self.expect("v_free %d" % vid, "ok", "free")
        order = self.live_ctx(); r.shuffle(order)
        for c in order:
            self.expect("ctx_free %d" % c, "ok", "free"); self.ctx[c]["alive"] = False

    def build(self, E):
        r = self.r
        c0 = self.a_new_ctx()
        n = r.randint(4, 14)
        for _ in range(n):
            cs = self.live_ctx()
            c = r.choice(cs)
            k = r.random()
            if k < 0.16: self.a_value_lifecycle()
            elif k < 0.34: self.a_store_load(c)
            elif k < 0.48: self.a_script_write(c)
            elif k < 0.62: self.a_bad_parse(c)
            elif k < 0.72: self.a_runtime_error(c, E)
            elif k < 0.77: self.a_return_value(c)
            elif k < 0.80: self.a_return_untaken(c)
            elif k < 0.85: self.a_break(c)
            elif k < 0.91 and len(cs) < 4: self.a_clone(c)
            elif k < 0.93: self.a_purge(c)
            elif k < 0.955: self.a_retype(c)
            elif k < 0.985 and len(cs) > 1:
                for xid, cc in list(self.execs.items()):
                    if cc == c: self.expect("xfree %d" % xid, "ok", "free"); del self.execs[xid]
                self.expect("ctx_free %d" % c, "ok", "free"); self.ctx[c]["alive"] = False
            else: self.a_new_ctx()
            self.a_pointer_lifetime()
        self.finish()


def leak_signature(report):
    """innermost in-repo allocation frames of the first leak"""
    frames = []
    for l in report.splitlines():
        m = re.match(r"\s*#\d+ 0x[0-9a-f]+ in (.+?) (/\S+?):\d+", l)
        if m and ("/blocc/" in m.group(2)) and "harness" not in m.group(2):
            fn = re.sub(r"\(.*$", "", m.group(1))
            if fn not in frames: frames.append(fn)
            if len(frames) >= 3: break
    return "|".join(frames) if frames else "unknown"


class Sh:
    def __init__(self, desc):
        self.desc = desc; self.res = new_result()
        self.rnd = random.Random("%s-c15-%s" % (desc["seed"], desc["k"]))
        self.bdir = build("asan")
        p = Probe("asan"); self.E = errnos(p); p.close()

    def viol(self, cls, what, wit):
        add_violation(self.res, "C15|" + cls, what, wit)

    def run_seq(self, ops):
        env = dict(os.environ); env["ASAN_OPTIONS"] = ASAN_LEAK + ":exitcode=23"; env["UBSAN_OPTIONS"] = UBSAN_OPTS; env["LD_LIBRARY_PATH"] = os.path.join(self.bdir, "libonly")
        try:
            p = subprocess.run([os.path.join(self.bdir, "harness", "vapi")], input=("\n".join(ops) + "\n").encode(), stdout=subprocess.PIPE, stderr=subprocess.PIPE, env=env, timeout=120)
        except subprocess.TimeoutExpired:
            return None
        return p

    def one(self):
        s = Seq(self.rnd); s.build(self.E)
        p = self.run_seq(s.ops)
        self.res["evaluations"] += 1
        wit = {"ops": s.ops}
        if p is None:
            self.res["inconclusive"] += 1; return
        replies = [l[2:] for l in p.stdout.decode("latin-1").splitlines() if l.startswith("R ")]
        err = p.stderr.decode("utf-8", "replace")
        if p.returncode != 0 and "LeakSanitizer" not in err:
            sig = sig_of_report(err) or ("exit=%d" % p.returncode)
            at = s.ops[len(replies)] if len(replies) < len(s.ops) else "exit"
            bump(self.res, "worker_crashes")
            self.viol("crash:%s" % sig, "sequence died at `%s`: %s" % (at[:80], sig), dict(wit, report=err[-3000:])); return
        for idx, chk in s.checks:
            if idx >= len(replies): break
            w = chk(replies[idx])
            if w:
                self.viol(w[0], "%s (call #%d of %d)" % (w[1], idx, len(s.ops)), dict(wit, failing_index=idx)); return
        # leaks attributed to one rejected text
        for n, idx, text in s.leakmarks:
            m = re.search(r"@@LEAKCHECK %d\n(.*?)@@LEAKCHECK-END (\d+)" % n, err, re.S)
            if m and m.group(2) != "0" and "Direct leak" in m.group(1):
                rep = replies[idx] if idx < len(replies) else ""
                en = re.search(r"errno=(-?\d+)", rep)
                self.viol("leak|%s|perr%s" % (leak_signature(m.group(1)), en.group(1) if en else "?"), "the rejected text `%s` (%s) leaves memory allocated: %s" % (text[:120], rep[:60], leak_signature(m.group(1))),
                          dict(wit, report=m.group(1)[:3000], rejected=text)); return
        tail = err[err.rfind("@@LEAKCHECK-END"):] if "@@LEAKCHECK-END" in err else err
        if "LeakSanitizer" in tail:
            err = tail
            self.viol("leak|" + leak_signature(err), "memory remains allocated after the caller freed everything it owns: %s" % leak_signature(err), dict(wit, report=err[:3000])); return
        if s.had_failure and s.had_roundtrip:
            self.res["nontrivial"].add(case_hash(s.ops))
        bump(self.res, "api_calls", len(s.ops)); bump(self.res, "replies_checked", len(s.checks))
        if len(self.res["samples"]) < 2:
            self.res["samples"].append({"calls": s.ops[:14], "total_calls": len(s.ops)})

    def run(self):
        n = 70 if self.desc["tier"] == "quick" else 2500
        for _ in range(n):
            self.one()
            if self.res["counters"].get("worker_crashes", 0) > CRASH_BUDGET: break
        return self.res


def plan(tier, seed):
    return [{"k": k, "n": 16, "seed": seed, "tier": tier} for k in range(16)]


def run_shard(desc):
    return Sh(desc).run()


def replay(wit):
    sh = Sh({"seed": 1, "k": 0, "tier": "quick"})
    p = sh.run_seq(wit["witness"]["ops"])
    reps = [l for l in p.stdout.decode("latin-1").splitlines()]
    for o, r in zip(wit["witness"]["ops"], reps + ["<none>"] * 999): print("  %s\n    -> %s" % (o[:120], r[:160]))
    print(p.stderr.decode()[:4000])
    return 0
