"""C09 — tables stay uniform, tuples keep their structure, indexing is range-checked.

Model-based sequences of container operations executed by the real interpreter; after every operation the
deep dump of every container is compared with a python model (content for accepted operations, unchanged
for rejected ones) and checked structurally for uniformity.  ASan+UBSan watch every step."""
import random, re
from vlib import *

PROPERTY = "C09"
LEVEL = "exploration"
RULE = ("one evaluation = one container operation (at/put/insert/delete/concat/count/@/set@, or a forall loop whose body tries to change the "
        "iterated table) executed inside a random sequence and followed by a deep dump of all containers compared with the model; "
        "non-trivial = the operation's outcome class was decided by the model (accept with exact new content, reject with unchanged content, "
        "index error for an out-of-range/null position); distinct = distinct (container state, operation text) pairs, hashed")
ASSUMPTIONS = ["python list model of tables/tuples (0-based tables, 1-based tuple ranks)", "integer/decimal mixing and untyped-null stores may be "
               "accepted or rejected (manual silent) but an accepted one must store the converted / typed-null element", "gcc ASan/UBSan runtimes"]

IMAX = (1 << 63) - 1

SETUP = ('t = tab(3, 7); td = tab(2, 1.5); ts = tab(2, "ab"); tb = tab(2, true); tt = tab(2, tab(2, 1)); tr = tab(2, tup(1, "x")); '
         'ui = tab(0, 0); ui.concat(11); ui.concat(12); ui.concat(13); ud = tab(0, 0.5); ud.concat(0.25); ud.concat(0.75); ud.concat(1.25); '
         'us = tab(0, ""); us.concat("x"); us.concat("y"); us.concat("z"); ut = tab(0, tab(0, 0)); ut.concat(tab(1, 1)); ut.concat(tab(1, 2)); ut.at(1).concat(3); '
         'ur = tab(0, tup(0, "")); ur.concat(tup(1, "a")); ur.concat(tup(2, "b")); '
         'r = tup(1, "x", 2.5, true); r2 = tup(2.5, 3); s = "hello"; x = raw(3, 65); '
         'function idf(a) return undefined is begin return a; end; '
         'function g(v:table) return integer is begin v.concat(v); return v.count(); end;')

# element type descriptors
I, N, S, B = "i", "n", "s", "b"
TI = ("t", "i")           # table of integer (element of tt)
RIS = ("r", ("i", "s"))   # tuple(integer, string) (element of tr)


def enc_scalar(ty, v):
    if v is None:
        return "Z%s0" % ty
    if ty == "i": return "i:%d" % v
    if ty == "n": return "n:%016x" % d2bits(v)
    if ty == "s": return "s:" + v.hex()
    if ty == "b": return "b:1" if v else "b:0"
    if ty == "x": return "x:" + v.hex()
    raise ValueError(ty)


def enc_elem(ety, v):
    if isinstance(ety, tuple) and ety[0] == "t":
        if v is None: return "Z%s1" % ety[1]
        return "t%s1[%s]" % (ety[1], ",".join(enc_scalar(ety[1], e) for e in v))
    if isinstance(ety, tuple) and ety[0] == "r":
        if v is None: return "Zr0"
        decl = "{" + ",".join(t + "0" for t in ety[1]) + "}"
        return "r%s(%s)" % (decl, ",".join(enc_scalar(t, e) for t, e in zip(ety[1], v)))
    return enc_scalar(ety, v)


def enc_table(ety, items):
    if isinstance(ety, tuple) and ety[0] == "t":
        head = "t%s2" % ety[1]
    elif isinstance(ety, tuple) and ety[0] == "r":
        head = "tr1{" + ",".join(t + "0" for t in ety[1]) + "}"
    else:
        head = "t%s1" % ety
    return head + "[" + ",".join(enc_elem(ety, e) for e in items) + "]"


def strip_minor(s):
    return re.sub(r"#\d+", "", s)


class Model:
    def __init__(self):
        self.tables = {"T": (I, [7, 7, 7]), "TD": (N, [1.5, 1.5]), "TS": (S, [b"ab", b"ab"]), "TB": (B, [True, True]),
                       "TT": (TI, [[1, 1], [1, 1]]), "TR": (RIS, [[1, b"x"], [1, b"x"]]),
                       # second variables of the same types with distinguishable elements: used as arguments of insert/concat (order matters)
                       "UI": (I, [11, 12, 13]), "UD": (N, [0.25, 0.75, 1.25]), "US": (S, [b"x", b"y", b"z"]), "UT": (TI, [[1], [2, 3]]), "UR": (RIS, [[1, b"a"], [2, b"b"]])}
        self.tuples = {"R": (("i", "s", "n", "b"), [1, b"x", 2.5, True]), "R2": (("n", "i"), [2.5, 3])}
        self.strs = {"S": ("s", b"hello"), "X": ("x", b"AAA")}

    def expect(self):
        d = {}
        for k, (ety, items) in self.tables.items():
            d[k] = enc_table(ety, items)
        for k, (tys, items) in self.tuples.items():
            d[k] = enc_elem(("r", tys), items)
        for k, (ty, v) in self.strs.items():
            d[k] = enc_scalar(ty, v)
        return d

    def key(self):
        return case_hash(self.expect())


# argument pools: (text, python value, class)   class: match | typednull | mix | unull | mismatch
def pool(ety, rnd):
    if ety == I:
        return [("5", 5, "match"), ("-3", -3, "match"), ("9223372036854775807", IMAX, "match"), ("int()", None, "typednull"), ("2.5", 2, "mix"), ("-7.9", -7, "mix"),
                ("num()", None, "mixnull"), ("1e300", None, "mix-oor"), ("null", None, "unull"), ('"a"', None, "mismatch"), ("true", None, "mismatch"), ("tab(1, \"a\")", None, "mismatch"),
                ("tup(1)", None, "mismatch"), ("str()", None, "mismatch"), ("raw(1, 1)", None, "mismatch")]
    if ety == N:
        return [("0.25", 0.25, "match"), ("-1e10", -1e10, "match"), ("num()", None, "typednull"), ("4", 4.0, "mix"), ("int()", None, "mixnull"), ("null", None, "unull"),
                ('"a"', None, "mismatch"), ("false", None, "mismatch"), ("tab(1, \"a\")", None, "mismatch"), ("bool()", None, "mismatch")]
    if ety == S:
        return [('"zz"', b"zz", "match"), ('""', b"", "match"), ("str()", None, "typednull"), ("null", None, "unull"), ("5", None, "mismatch"), ("2.5", None, "mismatch"),
                ("raw(2, 66)", None, "mismatch"), ('tab(1, 1)', None, "mismatch"), ("int()", None, "mismatch")]
    if ety == B:
        return [("false", False, "match"), ("bool()", None, "typednull"), ("null", None, "unull"), ("0", None, "mismatch"), ('"true"', None, "mismatch")]
    if ety == TI:
        return [("tab(1, 9)", [9], "match"), ("tab(0, 0)", [], "match"), ("tab(2, int())", [None, None], "match"), ("null", None, "unull"), ("5", None, "mismatch"), ("4.5", None, "mismatch"),
                ("num()", None, "mismatch"), ("int()", None, "mismatch"), ("tab(1, 1.5)", None, "mismatch"), ('tab(1, "a")', None, "mismatch"), ("tab(1, tab(1, 1.5))", None, "mismatch"), ("tab(1, tab(1, tab(1, 1)))", None, "mismatch"), ("tup(1)", None, "mismatch")]
    if ety == RIS:
        return [('tup(4, "q")', [4, b"q"], "match"), ('tup(int(), str())', [None, None], "match"), ("null", None, "unull"), ('tup("q", 4)', None, "mismatch"), ("tup(4)", None, "mismatch"),
                ('tup(4, "q", 1)', None, "mismatch"), ("tup(4.5, \"q\")", None, "mismatch"), ("5", None, "mismatch"), ('tab(1, tup("q", 4))', None, "mismatch"), ("tup()", None, "tupnull")]
    raise ValueError(ety)


def table_pool(ety):
    """tables usable as argument of concat/insert: (text, items, class)"""
    if ety == I: return [("tab(2, 8)", [8, 8], "match"), ("tab(0, 1)", [], "match"), ("tab(2, 1.5)", None, "mismatch"), ("tab(1, tab(1, 1))", None, "mismatch"), ("t", "SELF:T", "match"), ("ui", "SELF:UI", "match"), ("ui", "SELF:UI", "match")]
    if ety == N: return [("tab(2, 0.5)", [0.5, 0.5], "match"), ("tab(1, 1)", None, "mismatch"), ("td", "SELF:TD", "match"), ("ud", "SELF:UD", "match")]
    if ety == S: return [('tab(2, "q")', [b"q", b"q"], "match"), ("tab(1, 1)", None, "mismatch"), ("ts", "SELF:TS", "match"), ("us", "SELF:US", "match")]
    if ety == B: return [("tab(1, false)", [False], "match"), ("tab(1, 1)", None, "mismatch")]
    if ety == TI: return [("tab(1, tab(1, 3))", [[3]], "match"), ("tab(1, tab(1, 1.5))", None, "mismatch"), ("tt", "SELF:TT", "match"), ("ut", "SELF:UT", "match")]
    if ety == RIS: return [('tab(1, tup(5, "w"))', [[5, b"w"]], "match"), ('tab(1, tup("w", 5))', None, "mismatch"), ("tr", "SELF:TR", "match"), ("ur", "SELF:UR", "match")]


def positions(n, rnd):
    return [(-1, False), (0, n > 0), (1, n > 1), (n - 1, n > 0), (n, False), (n + 1, False), (2 ** 31, False), (2 ** 32 + 1, False), (IMAX, False), (-IMAX - 1, False), (2 ** 32, False)]


def postxt(p, rnd):
    k = rnd.random()
    t = str(p) if p >= 0 else "(%d)" % p if p > -IMAX - 1 else "(-9223372036854775807 - 1)"
    if k < 0.15: return "idf(%s)" % t
    return t


class Sh:
    def __init__(self, desc):
        self.desc = desc; self.res = new_result(); self.probe = Probe("asan")
        self.E = errnos(self.probe)
        self.rnd = random.Random("%s-c09-%s" % (desc["seed"], desc["k"]))

    def viol(self, cls, what, ops):
        add_violation(self.res, "C09|" + cls, what, {"ops": ops})

    def gen_op(self, m):
        """returns (text, kind, apply(model) or None, expect) expect: accept|reject|either|index"""
        r = self.rnd
        kind = r.random()
        if kind < 0.62:
            name = r.choice(list(m.tables))
            ety, items = m.tables[name]
            var = name.lower()
            n = len(items)
            op = r.choice(["put", "insert", "delete", "concat", "at", "count", "concat_t", "insert_t"])
            if op == "count":
                return ("%s.count()" % var, "count", None, ("value", "i:%d" % n))
            if op in ("at", "delete"):
                p, ok = r.choice(positions(n, r))
                usenull = r.random() < 0.08
                pt = r.choice(["int()", "null", "idf(null)"]) if usenull else postxt(p, r)
                if usenull: ok = False
                if op == "at":
                    return ("%s.at(%s)" % (var, pt), "at", None, ("value", enc_elem(ety, items[p])) if ok else ("index",))
                def ap(m=m, name=name, p=p):
                    del m.tables[name][1][p]
                return ("%s.delete(%s)" % (var, pt), "delete", ap if ok else None, ("accept",) if ok else ("index",))
            if op in ("put", "insert"):
                p, ok = r.choice(positions(n, r))
                if op == "insert": ok = 0 <= p <= n
                usenull = r.random() < 0.06
                pt = r.choice(["int()", "null"]) if usenull else postxt(p, r)
                if usenull: ok = False
                vt, pv, cls = r.choice(pool(ety, r))
                if r.random() < 0.3: vt = "idf(%s)" % vt
                return self._store(m, name, var, ety, op, p, ok, pt, vt, pv, cls)
            if op == "concat":
                vt, pv, cls = r.choice(pool(ety, r))
                if r.random() < 0.3: vt = "idf(%s)" % vt
                return self._store(m, name, var, ety, "concat", len(items), True, None, vt, pv, cls)
            # table argument
            tt, titems, cls = r.choice(table_pool(ety))
            if isinstance(titems, str):
                titems = [(list(e) if isinstance(e, list) else e) for e in m.tables[titems[5:]][1]]
            if r.random() < 0.25 and not tt.islower(): tt = "idf(%s)" % tt
            if op == "concat_t":
                if cls == "match":
                    def ap(m=m, name=name, titems=titems):
                        m.tables[name][1].extend([(list(e) if isinstance(e, list) else e) for e in titems])
                    return ("%s.concat(%s)" % (var, tt), "concat_t", ap, ("accept",))
                return ("%s.concat(%s)" % (var, tt), "concat_t", None, ("reject",))
            p, ok = r.choice(positions(n, r)); ok = 0 <= p <= n
            pt = postxt(p, r)
            if cls == "match" and ok:
                def ap(m=m, name=name, titems=titems, p=p):
                    m.tables[name][1][p:p] = [(list(e) if isinstance(e, list) else e) for e in titems]
                return ("%s.insert(%s, %s)" % (var, pt, tt), "insert_t", ap, ("accept",))
            return ("%s.insert(%s, %s)" % (var, pt, tt), "insert_t", None, ("index",) if (cls == "match" and not ok) else ("reject",))
        if kind < 0.85:
            name = r.choice(list(m.tuples)); tys, items = m.tuples[name]; var = name.lower(); n = len(tys)
            rank = r.choice([0, 1, n, n + 1, 2, 4294967297, 4294967296, 99999999999999999999, 18446744073709551616, 2 ** 32 + n])
            ok = 1 <= rank <= n
            if r.random() < 0.4:
                if r.random() < 0.2:
                    return ("%s.count()" % var, "count", None, ("value", "i:%d" % n))
                return ("%s@%d" % (var, rank), "item", None, ("value", enc_scalar(tys[rank - 1], items[rank - 1])) if ok else ("index",))
            ty = tys[rank - 1] if ok else r.choice(tys)
            vt, pv, cls = r.choice(pool(ty, r))
            if r.random() < 0.3: vt = "idf(%s)" % vt
            text = "%s.set@%d(%s)" % (var, rank, vt)
            if not ok:
                return (text, "set@", None, ("index",) if cls in ("match", "typednull") else ("reject",))
            return self._tstore(m, name, rank, ty, text, pv, cls)
        # strings / bytes delete + at (the rest is covered by C10)
        name = r.choice(["S", "X"]); ty, v = m.strs[name]; var = name.lower(); n = len(v)
        p, ok = r.choice(positions(n, r))
        k3 = r.random()
        if k3 < 0.3:
            # insert at every position class, the end position p == n included (string: a string; bytes: a code or bytes)
            ok = 0 <= p <= n
            at, av = r.choice([('"zq"', b"zq"), ('""', b"")]) if ty == "s" else r.choice([("66", b"B"), ("raw(2, 67)", b"CC"), ("raw(0, 0)", b"")])
            if r.random() < 0.3: at = "idf(%s)" % at
            def api(m=m, name=name, p=p, av=av):
                ty, v = m.strs[name]; m.strs[name] = (ty, v[:p] + av + v[p:])
            return ("%s.insert(%s, %s)" % (var, postxt(p, r), at), "sinsert", api if ok else None, ("accept",) if ok else ("index",))
        if k3 < 0.65:
            return ("%s.at(%s)" % (var, postxt(p, r)), "sat", None, ("value", "i:%d" % v[p]) if ok else ("index",))
        def ap(m=m, name=name, p=p):
            ty, v = m.strs[name]; m.strs[name] = (ty, v[:p] + v[p + 1:])
        return ("%s.delete(%s)" % (var, postxt(p, r)), "sdelete", ap if ok else None, ("accept",) if ok else ("index",))

    def _store(self, m, name, var, ety, op, p, ok, pt, vt, pv, cls):
        text = "%s.%s(%s)" % (var, op, vt) if op == "concat" else "%s.%s(%s, %s)" % (var, op, pt, vt)
        def mk(val):
            def ap(m=m, name=name, p=p, val=val):
                items = m.tables[name][1]
                v = list(val) if isinstance(val, list) else val
                if op == "put": items[p] = v
                elif op == "insert": items.insert(p, v)
                else: items.append(v)
            return ap
        if cls == "tupnull":
            # tup() (null tuple without structure): documented as "+ tuple null" = no-op for insert/concat; put: reject or no-op
            return (text, op, None, ("noop-or-reject",) if ok else ("reject",))
        if cls in ("match", "typednull"):
            return (text, op, mk(pv) if ok else None, ("accept",) if ok else ("index",))
        if cls in ("mix", "mixnull", "unull"):
            val = pv if cls == "mix" else None
            return (text, op, mk(val) if ok else None, ("either",) if ok else ("reject",))
        if cls == "mix-oor":
            return (text, op, None, ("reject",))
        return (text, op, None, ("reject",))

    def _tstore(self, m, name, rank, ty, text, pv, cls):
        def mk(val):
            def ap(m=m, name=name, rank=rank, val=val):
                m.tuples[name][1][rank - 1] = val
            return ap
        if cls in ("match", "typednull"): return (text, "set@", mk(pv), ("accept",))
        if cls in ("mix", "mixnull", "unull"): return (text, "set@", mk(pv if cls == "mix" else None), ("either",))
        return (text, "set@", None, ("reject",))

    def sequence(self, nops):
        m = Model()
        pre = ["new A 0", "parse A PRE %s" % hx(SETUP), "run A PRE 100000"]
        ops = list(pre)
        steps = []
        # generation is independent of execution, except that "either" outcomes fork the model: we resolve after execution,
        # therefore generate and run step by step in one case but decide lazily: run op by op (one case per sequence, ops appended).
        seqkey = []
        for k in range(nops):
            text, kind, ap, exp = self.gen_op(m)
            stepops = ["pexpr A E %s" % hx(text), "eval A E", "dump A nofn"]
            r = self.probe.case(ops + stepops)
            self.res["evaluations"] += 1
            bump(self.res, "op_" + kind)
            full = ops + stepops
            if r.crashed:
                if r.sig and ("allocation-size-too-big" in r.sig or "bad_alloc" in r.sig):
                    self.res["out_of_domain"] += 1; return
                bump(self.res, "worker_crashes")
                add_violation(self.res, "C09|%s|crash:%s" % (kind, r.sig), "crash in `%s` after %d steps: %s" % (text, k, r.sig), {"ops": full, "report": r.report[-3000:]})
                return
            if r.timeout:
                self.res["inconclusive"] += 1; return
            rep = r.replies[len(ops):]
            before = m.expect()
            pr, ev, dm = rep[0], rep[1], rep[2]
            accepted = pr.startswith("ok") and ev.startswith("val")
            foreign = [x for x in rep if x.startswith("foreign")]
            if foreign:
                self.viol("%s|foreign" % kind, "`%s`: %s" % (text, foreign[0][:100]), full); return
            got = {k2: strip_minor(v["value"]) for k2, v in parse_dump(dm)["syms"].items()}
            errno = None
            if pr.startswith("perr"): errno = "parse"
            elif ev.startswith("rerr"): errno = int(ev.split()[1])
            # -- decide
            want = exp[0]
            if want == "value":
                if not accepted:
                    self.viol("%s|in-range-failed" % kind, "`%s` failed: %s %s" % (text, pr[:60], ev[:80]), full); return
                val = strip_minor(rfields(ev)[1][0])
                if val != exp[1]:
                    self.viol("%s|value" % kind, "`%s` returned %s, model %s" % (text, val[:80], exp[1][:80]), full); return
            elif want == "index":
                if accepted:
                    self.viol("%s|index-not-rejected" % kind, "`%s` with out-of-range/null position accepted: %s" % (text, ev[:80]), full); return
                if errno not in ("parse", self.E["INDEX_RANGE"]) :
                    # an index error is required (the value argument is acceptable)
                    self.viol("%s|index-error-kind" % kind, "`%s`: out-of-range/null position reported as error %s (%s), not an index error" % (text, errno, ev[:100]), full); return
            elif want == "reject":
                if accepted:
                    self.viol("%s|mismatch-accepted" % kind, "`%s` accepted although the model rejects it" % text, full); return
            elif want == "accept":
                if not accepted:
                    self.viol("%s|valid-rejected" % kind, "`%s` rejected: %s %s" % (text, pr[:80], ev[:80]), full); return
                ap()
            elif want == "either":
                if accepted: ap()
            elif want == "noop-or-reject":
                pass
            after = m.expect()
            for name2, e in after.items():
                if got.get(name2) != e:
                    cls = "changed-by-rejected" if not accepted else "content"
                    self.viol("%s|%s" % (kind, cls), "after `%s` (%s): %s is %s, model %s" % (text, "accepted" if accepted else "rejected", name2, got.get(name2, "?")[:120], e[:120]), full)
                    return
            self.res["nontrivial"].add(case_hash([m.key(), text]))
            if len(self.res["samples"]) < 4 and k == 3:
                self.res["samples"].append({"setup": SETUP[:80] + "...", "op": text, "expected_class": want, "parse": pr[:30], "eval": ev[:50]})
            ops += stepops[:2]
            steps.append(text)

    def forall_units(self):
        muts = ["{v}.concat({e})", "{v}.insert(0, {e})", "{v}.delete(0)", "{v} = tab(1, {e})", "{v}.concat({v})", "{v}.put(0, {e})", "z = g({v})", "{v}.at(0)",
                "forall q in {v} loop {v}.delete(0); end loop", "if true then {v}.delete(0); end if", "begin {v}.delete(0); exception when others then nop; end",
                "w = {v}.delete(0)", "w = {v}", "{v} = {v}", "{v}.insert(1, {v})", "z = {v}.concat({e}).count()"]
        targets = [("t", "T", "5"), ("ts", "TS", '"k"'), ("tt", "TT", "tab(1, 1)"), ("tr", "TR", 'tup(1, "x")')]
        for v, V, e in targets:
            for mu in muts:
                for wrap in ("forall e in {v} loop %s; end loop;", "forall e in {v} loop for i in 1 to 2 loop %s; end loop; end loop;",
                             "forall e in {v} loop forall f in {v} loop nop; end loop; %s; end loop;"):
                    text = (wrap % mu).format(v=v, e=e)
                    ops = ["new A 0", "parse A PRE %s" % hx(SETUP), "run A PRE 100000", "parse A P %s" % hx(text), "run A P 20000", "dump A nofn",
                           "parse A Q %s" % hx("%s.concat(%s); n9 = %s.count();" % (v, e, v)), "run A Q 1000", "dump A nofn"]
                    r = self.probe.case(ops)
                    self.res["evaluations"] += 1; bump(self.res, "op_forall")
                    if r.crashed:
                        add_violation(self.res, "C09|forall|crash:%s" % r.sig, "crash in `%s`: %s" % (text, r.sig), {"ops": ops, "report": r.report[-3000:]}); continue
                    rep = r.replies
                    m = Model(); before = m.expect()[V]
                    n0 = len(m.tables[V][1])
                    d = parse_dump(rep[5])["syms"]
                    cur = parse_value(d[V]["value"])
                    rejected = rep[3].startswith("perr") or (len(rep) > 4 and rep[4].startswith("rerr"))
                    if cur[0] != "t":
                        self.viol("forall|table-lost", "`%s`: %s is %s afterwards" % (text, V, d[V]["value"][:60]), ops); continue
                    n1 = len(cur[3])
                    if n1 != n0:
                        self.viol("forall|length-changed", "`%s`: %s had %d elements, has %d after the forall (%s)" % (text, V, n0, n1, "rejected" if rejected else "accepted"), ops); continue
                    # the lock must be released afterwards: a concat outside the loop works
                    if not rep[6].startswith("ok") or not rep[7].startswith("ok"):
                        self.viol("forall|lock-not-released", "`%s`: later concat on %s refused: %s %s" % (text, V, rep[6][:80], rep[7][:80]), ops); continue
                    if d[V]["flags"] != "-":
                        self.viol("forall|flags-left", "`%s`: %s keeps flags %s" % (text, V, d[V]["flags"]), ops); continue
                    self.res["nontrivial"].add(case_hash(["forall", text]))
                    if len(self.res["samples"]) < 6 and mu == muts[2]:
                        self.res["samples"].append({"forall": text, "outcome": (rep[3][:40], rep[4][:40]), "len_before": n0, "len_after": n1})

    def iterator_units(self):
        """writes through the forall iterator land in the table and must keep it uniform"""
        base = Model()
        names = {"T": "t", "TD": "td", "TS": "ts", "TB": "tb", "TT": "tt", "TR": "tr"}
        for V, v in names.items():
            ety, items = base.tables[V]
            for vt, pv, cls in pool(ety, self.rnd):
                for form in ("{x}", "idf({x})"):
                    for prog in ("forall e in {v} loop e = {x}; end loop;", "forall e in {v} desc loop e = {x}; end loop;",
                                 "forall e in {v} loop if true then e = {x}; end if; end loop;"):
                        text = prog.format(v=v, x=form.format(x=vt))
                        ops = ["new A 0", "parse A PRE %s" % hx(SETUP), "run A PRE 100000", "parse A P %s" % hx(text), "run A P 20000", "dump A nofn"]
                        r = self.probe.case(ops)
                        self.res["evaluations"] += 1; bump(self.res, "op_iterator_write")
                        if r.crashed:
                            bump(self.res, "worker_crashes")
                            add_violation(self.res, "C09|iterator|crash:%s" % r.sig, "crash in `%s`: %s" % (text, r.sig), {"ops": ops, "report": r.report[-3000:]}); continue
                        rep = r.replies
                        accepted = rep[3].startswith("ok") and rep[4].startswith("ok")
                        d = parse_dump(rep[5])["syms"]
                        cur = d[V]["value"]
                        why = uniform(parse_value(cur))
                        if why:
                            self.viol("iterator|non-uniform", "`%s`: %s is %s: %s" % (text, V, cur[:120], why), ops); continue
                        m = Model()
                        n = len(m.tables[V][1])
                        if form != "{x}" and rep[3].startswith("perr"):
                            # an opaque right-hand side cannot be proven to keep the iterator's immutable type: refused at compile time
                            bump(self.res, "opaque_rhs_refused_at_compile_time")
                            if strip_minor(cur) != m.expect()[V]:
                                self.viol("iterator|changed-by-rejected", "`%s` rejected but %s changed" % (text, V), ops)
                            continue
                        if cls in ("match", "typednull"):
                            if not accepted:
                                self.viol("iterator|valid-rejected", "`%s` rejected: %s %s" % (text, rep[3][:60], rep[4][:80]), ops); continue
                            m.tables[V] = (ety, [(list(pv) if isinstance(pv, list) else pv) for _ in range(n)])
                        elif cls in ("mix", "mixnull", "unull"):
                            if accepted:
                                m.tables[V] = (ety, [(pv if cls == "mix" else None) for _ in range(n)])
                        elif cls == "tupnull":
                            pass
                        else:
                            if accepted:
                                self.viol("iterator|mismatch-accepted", "`%s` accepted; %s is now %s" % (text, V, cur[:100]), ops); continue
                        if cls != "tupnull" and strip_minor(cur) != m.expect()[V]:
                            self.viol("iterator|content", "`%s` (%s): %s is %s, model %s" % (text, "accepted" if accepted else "rejected", V, strip_minor(cur)[:100], m.expect()[V][:100]), ops); continue
                        if d[V]["flags"] != "-" or d["E"]["flags"] != "-":
                            self.viol("iterator|flags-left", "`%s`: flags %s / iterator %s left" % (text, d[V]["flags"], d["E"]["flags"]), ops); continue
                        self.res["nontrivial"].add(case_hash(["iter", text]))

    def ctor_units(self):
        """tab(n, v) / tup(...) constructors: result uniform or rejected"""
        r = self.rnd
        elems = ["5", "2.5", '"a"', "true", "raw(1,1)", "int()", "num()", "str()", "null", "tab(2, 1)", "tab()", "tup(1, \"a\")", "tup()", "tab(1, tab(1, 1.5))", "idf(5)", "idf(null)", "idf(tab(1,1))"]
        ns = ["0", "1", "3", "(-1)", "int()", "null", "2.5", "idf(2)", "300"]
        for e in elems:
            for n in ns:
                text = "c = tab(%s, %s);" % (n, e)
                self._ctor(text)
        for a in elems:
            for b in ["7", "str()", "null", "tab(1,1)", 'tup(1)']:
                self._ctor("c = tup(%s, %s);" % (a, b))
        # an element expression whose value changes between its n evaluations (the expression has one static type, possibly opaque)
        vary = ('function vt(k) return tuple is begin if k % 2 == 0 then return tup(1, "a"); end if; return tup("a", 1); end; '
                'function vu(k) return undefined is begin if k % 2 == 0 then return 1; end if; return "s"; end; '
                'function vn(k) return tuple is begin if k % 2 == 0 then return tup(1, "a"); end if; return tup(1, "a", 2); end; '
                'function vl(k) return table is begin if k % 2 == 0 then return tab(1, 1); end if; return tab(1, tab(1, 1)); end; v = tab(0, 0); ')
        for f in ("vt", "vu", "vn", "vl"):
            for n in (2, 3, 4):
                self._ctor(vary + "c = tab(%d, %s(v.concat(1).count()));" % (n, f))
                self._ctor(vary + "c = tab(0, %s(0)); for i in 1 to %d loop c.concat(%s(i)); end loop;" % (f, n, f))
                self._ctor(vary + "c = tab(%d, %s(0)); c.put(1, %s(1));" % (n, f, f))
        # copies of tables of tuples / tables keep their structure: nesting and concatenating a copy
        for src in ("tr", "tt", "ur", "ut"):
            self._ctor("u9 = %s; c = tab(1, u9);" % src)
            self._ctor("u9 = %s; c = tab(1, u9); c.concat(%s); c.concat(u9);" % (src, src))
            self._ctor("u9 = %s; c = tab(0, %s); c.concat(u9); c.concat(%s);" % (src, src, src))
            self._ctor("u9 = %s; c = u9; c.concat(%s.at(0)); c.insert(0, u9);" % (src, src))
            self._ctor("function cp(x) return table is begin return x; end; c = tab(1, cp(%s)); c.concat(%s);" % (src, src))

    def _ctor(self, text):
        ops = ["new A 0", "parse A PRE %s" % hx(SETUP), "run A PRE 100000", "parse A P %s" % hx(text), "run A P 20000", "get A 43"]
        r = self.probe.case(ops)
        self.res["evaluations"] += 1; bump(self.res, "op_ctor")
        if r.crashed:
            if r.sig and ("allocation-size-too-big" in r.sig or "bad_alloc" in r.sig):
                self.res["out_of_domain"] += 1; return
            add_violation(self.res, "C09|ctor|crash:%s" % r.sig, "crash in `%s`: %s" % (text, r.sig), {"ops": ops, "report": r.report[-3000:]}); return
        rep = r.replies
        if not rep[3].startswith("ok") or not rep[4].startswith("ok"):
            bump(self.res, "ctor_rejected"); self.res["nontrivial"].add(case_hash(["ctor", text])); return
        val = rep[5].split()[1] if rep[5].startswith("val") else None
        if val is None:
            return
        why = uniform(parse_value(val))
        if why:
            self.viol("ctor|non-uniform", "`%s` built %s: %s" % (text, val[:100], why), ops)
        else:
            self.res["nontrivial"].add(case_hash(["ctor", text]))


def uniform(v):
    """structural invariant on a parsed value; returns None or a description"""
    k = v[0]
    if k == "t":
        (maj, lvl, minor), decl, items, flag = v[1], v[2], v[3], v[4]
        if flag: return "value type %s differs from its collection type" % (flag,)
        for it in items:
            if it[0] == "null":
                if it[1][0] != maj or it[1][1] != lvl - 1 or (maj == "r" and it[1][2] != minor):
                    return "null element of type %s in table of %s level %d" % (it[1], maj, lvl)
            elif lvl - 1 > 0:
                if it[0] != "t" or it[1][0] != maj or it[1][1] != lvl - 1: return "element %s in table %s%d" % (it[:2], maj, lvl)
                if maj == "r" and it[2] != decl: return "inner table of another tuple structure"
                w = uniform(it)
                if w: return w
            elif maj == "r":
                if it[0] != "r" or it[1] != decl: return "tuple element %s in table of %s" % (it[1] if it[0] == "r" else it[0], decl)
                w = uniform(it)
                if w: return w
            else:
                if it[0] != maj: return "element of type %s in table of %s" % (it[0], maj)
    if k == "r":
        decl, items, flag = v[1], v[2], v[3]
        if flag: return "tuple value type flag %s" % (flag,)
        if len(decl) != len(items): return "tuple with %d items, declaration of %d" % (len(items), len(decl))
        for d, it in zip(decl, items):
            t = it[1][:2] if it[0] == "null" else ((it[1][0], it[1][1]) if it[0] == "t" else (it[0], 0))
            if t != (d[0], d[1]): return "tuple item %s declared %s" % (t, d)
    return None


def plan(tier, seed):
    n = 16
    return [{"k": k, "n": n, "seed": seed, "tier": tier} for k in range(n)]


def run_shard(desc):
    sh = Sh(desc)
    quick = desc["tier"] == "quick"
    nseq = 60 if quick else 1500
    for _ in range(nseq):
        sh.sequence(sh.rnd.randint(8, 25))
        if sh.res["counters"].get("worker_crashes", 0) > CRASH_BUDGET: break
    if desc["k"] == 0:
        sh.forall_units()
    if desc["k"] == 1:
        sh.ctor_units()
    if desc["k"] == 2:
        sh.iterator_units()
    sh.probe.close()
    return sh.res


def replay(wit):
    r = generic_replay(wit)
    return 1 if r.crashed else 0
