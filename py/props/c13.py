"""C13 — a source text means the same whatever its line lengths or read fragmentation.

Differential monitor on the real scanner: the token stream (public interactive parser + pop()), the compiled
program's unparse text and its output are compared between the reference delivery (whole lines) and
(i) every single split position, random multi-splits and fixed fragment sizes through a custom StreamReader,
(ii) LF vs CRLF, (iii) two physical layouts of one token sequence (one statement per line vs one long line),
with every kind of multi-character lexeme slid across the 1023-byte refill boundary."""
import random
from vlib import *
import model_lang as ml
import lang_diff as ld
import corpus

PROPERTY = "C13"
LEVEL = "exploration"
RULE = ("one evaluation = one (source, delivery) pair: delivery = a fragmentation of the byte stream or a re-layout; compared with the reference "
        "delivery: token stream (code, text) with whitespace/newline tokens projected out, or unparse text and output of the compiled program; "
        "non-trivial = the fragmentation cuts inside the text (not at its ends) and the source has >= 5 tokens; distinct = (source hash, delivery)")
ASSUMPTIONS = ["lex._tokenizer.c (the committed generated scanner) is what is compiled and observed; a change made only to tokenizer.lex is invisible",
               "the custom reader strips CR as the built-in readers do", "gcc ASan/UBSan runtimes"]

LEXEMES = ["==", ">=", "<=", "!=", "<>", ":=", "<<", ">>", "**", "&&", "||", '"a\\"b"', '"a\\\\"', '"x""y"', "/* c */", "// tail", "12345", "0x7fF0", "1.5e+10", "2.5E-3", ".5", "1e5",
           "identifier_long_name", "$safe", "9223372036854775807", '"#not a directive"', '"/*" + "*/"', "power", "xor", "true", "tab(2, 1)", "a.count()", "r@1", "t.set@1(5)"]

NL = 10


def tokstream(reply):
    """tok <code>:<hex> ... -> list of (code, text) without spaces/newlines"""
    parts = reply.split(" ")
    out = []
    end = None
    for p in parts[1:]:
        if p.startswith("end="): end = p; continue
        if p.startswith("reads="): continue
        c, h = p.split(":", 1)
        c = int(c)
        if c == NL: continue
        out.append((c, unhx(h)))
    return out, end


class Sh:
    def __init__(self, desc):
        self.desc = desc; self.res = new_result(); self.probe = Probe("asan", timeout=40)
        self.E = errnos(self.probe)
        self.rnd = random.Random("%s-c13-%s-%s" % (desc["seed"], desc["kind"], desc["k"]))

    def viol(self, cls, what, wit):
        add_violation(self.res, "C13|" + cls, what, wit)

    def lexeme_class(self, text, pos):
        """what straddles the cut position (for the signature)"""
        toks = corpus.tokens(text.decode("latin-1"))
        off = 0
        for t in toks:
            if off < pos < off + len(t):
                if t.startswith('"'): return "string"
                if t.startswith("/*") or t.startswith("//") or t.startswith("#"): return "comment"
                if t[0].isdigit() or t[0] == ".": return "number"
                if t[0].isalpha() or t[0] in "_$": return "word"
                if t.isspace(): return "space"
                return "operator"
            off += len(t)
        return "boundary"

    def token_case(self, text, specs):
        """specs: list of (label, fragspec, cutpos or None)"""
        units_ops = ["tokens %s lines" % hx(text)] + ["tokens %s %s" % (hx(text), s) for _, s, _ in specs]
        r = self.probe.case(units_ops)
        wit = {"ops": units_ops[:1], "source": text.decode("latin-1")}
        if r.crashed:
            self.res["evaluations"] += 1; bump(self.res, "worker_crashes")
            k = len(r.replies)
            add_violation(self.res, "C13|crash:%s" % r.sig, "token scan crashed (delivery %s): %s" % (specs[max(0, k - 1)][1] if k > 0 and k - 1 < len(specs) else "?", r.sig), dict(wit, report=r.report[-3000:])); return
        if r.timeout:
            self.res["inconclusive"] += 1; return
        ref, rend = tokstream(r.replies[0])
        for (label, spec, cut), rep in zip(specs, r.replies[1:]):
            self.res["evaluations"] += 1
            got, gend = tokstream(rep)
            if got != ref or gend != rend:
                n = 0
                while n < len(ref) and n < len(got) and ref[n] == got[n]: n += 1
                cls = self.lexeme_class(text, cut) if cut is not None else label
                a = ref[n] if n < len(ref) else "<end>"; b = got[n] if n < len(got) else "<end>"
                self.viol("tokens|split|%s" % cls, "delivery %s of `%s...`: token #%d is %r, reference %r" % (spec[:60], text[:60].decode("latin-1"), n, b, a), {"ops": ["tokens %s lines" % hx(text), "tokens %s %s" % (hx(text), spec)], "source": text.decode("latin-1")})
                return
            if len(ref) >= 5 and (cut is None or 0 < cut < len(text)):
                self.res["nontrivial"].add(case_hash([text.hex(), spec]))
        bump(self.res, "tokens_compared", len(ref) * len(specs))
        if len(self.res["samples"]) < 2:
            self.res["samples"].append({"source": text[:120].decode("latin-1"), "deliveries": [s for _, s, _ in specs[:4]], "tokens": len(ref)})

    def program_case(self, text, specs):
        """compile + run through each delivery, compare unparse text and output with the whole-line delivery"""
        ops = ["new A 0", "parsef A P %s lines" % hx(text), "unparse P", "run A P 20000"]
        for i, (label, spec, cut) in enumerate(specs):
            ops += ["new B%d 0" % i, "parsef B%d Q%d %s %s" % (i, i, hx(text), spec), "unparse Q%d" % i, "run B%d Q%d 20000" % (i, i)]
        r = self.probe.case(ops)
        wit = {"ops": ops[:4], "source": text.decode("latin-1")}
        if r.crashed:
            self.res["evaluations"] += 1; bump(self.res, "worker_crashes")
            add_violation(self.res, "C13|crash:%s" % r.sig, "program delivery crashed: %s" % r.sig, dict(wit, report=r.report[-3000:])); return
        if r.timeout:
            self.res["inconclusive"] += 1; return
        rep = r.replies
        ref_parse, ref_text, ref_run = rep[1], rep[2], rep[3]
        for i, (label, spec, cut) in enumerate(specs):
            self.res["evaluations"] += 1
            p, t, rn = rep[4 + 4 * i + 1], rep[4 + 4 * i + 2], rep[4 + 4 * i + 3]
            w2 = {"ops": ops[:4] + ops[4 + 4 * i: 8 + 4 * i], "source": text.decode("latin-1")}
            if p.split()[0] != ref_parse.split()[0]:
                self.viol("program|acceptance|%s" % label, "delivery %s: %s, whole-line delivery: %s" % (spec[:50], p[:80], ref_parse[:60]), w2); return
            if ref_parse.startswith("ok"):
                if t != ref_text:
                    self.viol("program|compiled-text|%s" % label, "delivery %s compiles to a different program: `%s` vs `%s`" % (spec[:50], unhx(t.split()[1])[:120], unhx(ref_text.split()[1])[:120]), w2); return
                oa = ld.impl_outcome(rn, self.E); ob = ld.impl_outcome(ref_run, self.E)
                if (oa[0], oa[2]) != (ob[0], ob[2]):
                    self.viol("program|behaviour|%s" % label, "delivery %s: %s %r vs %s %r" % (spec[:50], oa[0], oa[2][:60], ob[0], ob[2][:60]), w2); return
                self.res["nontrivial"].add(case_hash(["prog", text.hex(), spec]))
            else:
                # same rejection: same error and position
                if p.split()[1:4] != ref_parse.split()[1:4]:
                    self.viol("program|error-position|%s" % label, "delivery %s: %s, whole-line delivery: %s" % (spec[:50], p[:80], ref_parse[:80]), w2); return
        bump(self.res, "programs_compared", len(specs))

    # ------------------------------------------------------------------ workloads
    def sources(self):
        r = self.rnd
        out = []
        for _ in range(6):
            g = ml.Gen(r, r.choice(["loops", "errors", "functions"]))
            f, p = g.program(nstmts=r.randint(2, 4))
            if ml.bounded(f, p) is None: continue
            out.append(ml.render(f, p, r))
        base = corpus.harvest(deterministic=True)
        out += r.sample(base, min(12, len(base)))
        # lexeme-rich statements
        for _ in range(10):
            parts = []
            for i in range(r.randint(3, 7)):
                lx = r.choice(LEXEMES)
                if lx.startswith("//"): parts.append("x%d = 1; %s\n" % (i, lx))
                elif lx.startswith("/*"): parts.append("x%d = %s 2;" % (i, lx))
                elif lx in ("==", ">=", "<=", "!=", "<>", "<<", ">>", "**", "&&", "||", "power", "xor"):
                    parts.append("x%d = %s %s %s;" % (i, "true" if lx in ("&&", "||", "xor") else "5", lx, "false" if lx in ("&&", "||", "xor") else "3"))
                elif lx == ":=": parts.append("x%d = 1;" % i)
                elif lx in ("a.count()", "r@1", "t.set@1(5)"): parts.append('a = "abc"; r = tup(1, 2); t = tup(3); x%d = %s;' % (i, lx))
                elif lx == "$safe": parts.append("$safe = 1; x%d = $safe;" % i)
                elif lx == "identifier_long_name": parts.append("identifier_long_name = 2; x%d = identifier_long_name;" % i)
                else: parts.append("x%d = %s;" % (i, lx))
                parts.append(r.choice([" ", "\n", "\n\n", "  "]))
            parts.append("print x0;\n")
            out.append("".join(parts))
        return out

    def splits(self):
        r = self.rnd
        quick = self.desc["tier"] == "quick"
        for src in self.sources():
            text = src.encode("utf-8", "replace")
            if len(text) < 4 or len(text) > 6000: continue
            n = len(text)
            positions = list(range(1, n)) if n < (400 if quick else 3000) else sorted(r.sample(range(1, n), 400 if quick else 3000))
            # every single split position
            for i in range(0, len(positions), 60):
                chunk = positions[i:i + 60]
                self.token_case(text, [("split", "cuts:%d" % p, p) for p in chunk])
            # random multi-splits and fixed sizes
            multi = []
            for _ in range(12):
                cuts = sorted(r.sample(range(1, n), min(n - 1, r.randint(2, 12))))
                multi.append(("multi", "cuts:" + ",".join(map(str, cuts)), None))
            fixed = [("fixed", "fixed:%d" % k, None) for k in ([1, 2, 3, 5, 7, 16, 63, 64, 255, 1022, 1023, 1024, 2047, 2048] if quick else list(range(1, 70)) + [127, 128, 255, 256, 511, 512, 1022, 1023, 1024, 1025, 2047, 2048])]
            self.token_case(text, multi + fixed)
            prog_specs = [("split", "cuts:%d" % p, p) for p in r.sample(positions, min(len(positions), 10))] + r.sample(multi, 3) + r.sample(fixed, 5)
            self.program_case(text, prog_specs)
            if self.res["counters"].get("worker_crashes", 0) > CRASH_BUDGET: return

    def boundary(self):
        """every kind of lexeme slid across offsets 1015..1030 of a line (the 1023-byte refill of the scanner)"""
        r = self.rnd
        k, n = self.desc["k"], self.desc["n"]
        if k == 0: self.crlf_tokens()
        cases = []
        for lx in LEXEMES:
            for off in range(1010, 1032):
                cases.append((lx, off))
        for idx, (lx, off) in enumerate(cases):
            if idx % n != k: continue
            if lx in ("==", ">=", "<=", "!=", "<>", "<<", ">>", "**", "power"): stmt = "x = 5 %s 3;" % lx
            elif lx in ("&&", "||", "xor"): stmt = "x = true %s false;" % lx
            elif lx == ":=": stmt = "x = 1;"
            elif lx.startswith("//"): stmt = "x = 1; %s" % lx
            elif lx.startswith("/*"): stmt = "x = %s 2;" % lx
            elif lx in ("a.count()", "r@1", "t.set@1(5)"): stmt = "x = %s;" % lx
            elif lx == "$safe": stmt = "$safe = 1;"
            elif lx == "identifier_long_name": stmt = "identifier_long_name = 2;"
            else: stmt = "x = %s;" % lx
            pos = stmt.find(lx) if lx in stmt else 4
            pad = off - pos
            head = 'a = "abc"; r = tup(1, 2); t = tup(3);\n'
            line = " " * max(0, pad) + stmt + " print x;\n"
            # filler made of statements, so that the long line holds many tokens
            filler = "y = 1; " * (max(0, pad) // 7)
            line2 = filler + " " * (max(0, pad) - len(filler)) + stmt + " print 7;\n"
            for text in (head + line, head + line2, head + line2.rstrip("\n")):
                tb = text.encode()
                # one long line vs. the same tokens one statement per line; linesN = built-in reader behaviour with a small max read
                self.token_case(tb, [("longline", "linesN:1023", len(head) + 1023), ("longline", "fixed:1023", len(head) + 1023), ("longline", "linesN:512", None), ("longline", "fixed:1", None)])
                relaid = text.replace("; ", ";\n")
                ops = ["tokens %s lines" % hx(tb), "tokens %s lines" % hx(relaid.encode())]
                rr = self.probe.case(ops)
                self.res["evaluations"] += 1
                if not rr.crashed and len(rr.replies) == 2:
                    a, _ = tokstream(rr.replies[0]); b, _ = tokstream(rr.replies[1])
                    if a != b:
                        self.viol("tokens|layout|%s" % ("string" if lx.startswith('"') else "other"), "one long line and one-statement-per-line layouts of the same tokens scan differently (lexeme %s at offset %d)" % (lx, off), {"ops": ops, "source": text})
                    else:
                        self.res["nontrivial"].add(case_hash(["layout", text]))
                self.program_case(tb, [("longline", "linesN:1023", None), ("crlf", "lines", None)])
            # CRLF vs LF through the built-in StringReader
            crlf = (head + line2).replace("\n", "\r\n").encode()
            ops = ["new A 0", "parse A P %s" % hx((head + line2).encode()), "unparse P", "new B 0", "parse B Q %s" % hx(crlf), "unparse Q"]
            rr = self.probe.case(ops)
            self.res["evaluations"] += 1
            if rr.crashed:
                add_violation(self.res, "C13|crash:%s" % rr.sig, "CRLF text crashed: %s" % rr.sig, {"ops": ops, "report": rr.report[-3000:]})
            elif rr.replies[1].split()[0] != rr.replies[4].split()[0] or rr.replies[2] != rr.replies[5]:
                self.viol("program|crlf", "CRLF and LF versions compile differently: %s / %s" % (rr.replies[1][:60], rr.replies[4][:60]), {"ops": ops})
            else:
                self.res["nontrivial"].add(case_hash(["crlf", lx, off]))
            if self.res["counters"].get("worker_crashes", 0) > CRASH_BUDGET: return


    def crlf_tokens(self):
        """tokens that span physical lines (string literals, block comments): the CRLF text must compile to the program of the LF text"""
        texts = ['s = "line one\nline two\nline three"; print strlen(s); print s;',
                 's = "a\n\nb"; print strlen(s);', 'print "x\n" + "y\nz";', 'a = 1 /* comment\nover two\nlines */ + 2; print a;',
                 'print "tab\there\nnext \\" + "q";', 's = "ends with newline\n"; print strlen(s); t = "\nstarts"; print strlen(t);',
                 'function f return string is\nbegin\n  return "in\nfunction";\nend;\nprint strlen(f());', 'print "one"\n;\nprint\n"two\nthree"\n;\n']
        # what the LF form prints follows from the text alone (a line break inside a string literal is one LF character of its value)
        expected = {texts[0]: b"28\nline one\nline two\nline three\n", texts[1]: b"4\n", texts[2]: b"x\ny\nz\n", texts[3]: b"3\n", texts[5]: b"18\n7\n", texts[6]: b"11\n"}
        for t in texts:
            lf = t + "\n"; crlf = lf.replace("\n", "\r\n")
            for P, R in (("parse", "run"), ("cparse", "crun")):
                ops = ["new A 0", "%s A P %s" % (P, hx(lf.encode())), "unparse P", "%s A P 1000" % R, "new B 0", "%s B Q %s" % (P, hx(crlf.encode())), "unparse Q", "%s B Q 1000" % R]
                rr = self.probe.case(ops)
                self.res["evaluations"] += 1; bump(self.res, "crlf_multiline_token_cases")
                if rr.crashed:
                    add_violation(self.res, "C13|crash:%s" % rr.sig, "CRLF text crashed: %s" % rr.sig, {"ops": ops, "report": rr.report[-3000:]}); continue
                rep = rr.replies
                if not rep[1].startswith("ok"):
                    if t in expected:
                        self.viol("program|multiline-token|rejected", "`%s` (%s) is refused: %s" % (t[:60], P, rep[1][:100]), {"ops": ops, "source": lf})
                    bump(self.res, "crlf_text_not_accepted"); continue
                oa = rfields(rep[3])[2].get("out"); ob = rfields(rep[7])[2].get("out") if len(rep) > 7 else None
                if t in expected and unhx(oa or "-") != expected[t]:
                    self.viol("program|multiline-token|value", "`%s` (%s) printed %r, the text says %r" % (t[:60], P, unhx(oa or "-")[:80], expected[t]), {"ops": ops, "source": lf}); continue
                if not rep[5].startswith("ok") or rep[2] != rep[6] or oa != ob:
                    self.viol("program|crlf|multiline-token", "`%s` with CRLF line ends (%s): %s, program text %s, output %r vs %r with LF" % (t[:60], P, rep[5][:60], "same" if rep[2] == rep[6] else "differs", unhx(ob or "-")[:60], unhx(oa or "-")[:60]), {"ops": ops, "source": crlf}); continue
                self.res["nontrivial"].add(case_hash(["crlfml", t, P]))

    def cli(self):
        """the bloc command's own readers (file and stdin): long physical lines, CRLF, vs the library's whole-line delivery"""
        import subprocess, tempfile, shutil, os
        r = self.rnd
        bdir = build("asan"); blocbin = os.path.join(bdir, "apps", "bloc")
        env = dict(os.environ); env["ASAN_OPTIONS"] = ASAN_OPTS; env["UBSAN_OPTIONS"] = UBSAN_OPTS; env["LD_LIBRARY_PATH"] = os.path.join(bdir, "libonly")
        work = tempfile.mkdtemp(prefix="c13cli_")
        try:
            n = 14 if self.desc["tier"] == "quick" else 200
            for it in range(n):
                # many short statements: their one-line layout is far longer than the 1023-byte read of the file reader
                k = r.randint(120, 400)
                stm = ["print %d;" % (i * 7 + it) if r.random() < 0.7 else 'x%d = "s%d"; print x%d;' % (i, i, i) for i in range(k)]
                # string literals and comments that span physical lines (every reader hands the scanner one line at a time)
                for j in range(r.randint(1, 3)):
                    stm.insert(r.randrange(len(stm)), r.choice(['print "first line\nsecond %d";' % j, 'print strlen("a\n\nb%d");' % j, 'print %d /* over\ntwo lines */ + 1;' % j]))
                # a few long literals / comments so that whatever byte a reader treats specially falls inside a token
                for j in range(r.randint(1, 4)):
                    stm.insert(r.randrange(len(stm)), r.choice(['print "%s";' % ("q" * r.randint(20, 90)), 'print %d; // %s' % (j, "c" * 40) if False else 'print strlen("%s");' % ("ab " * r.randint(5, 30)),
                                                                'print %d /* %s */ + 1;' % (j, "z" * r.randint(5, 60))]))
                pad = " " * r.choice([0, 1, 2, 3, 5, 11, 17, 1000, 1021, 1022, 1023, 1024])
                layouts = {"multi": "\n".join(stm) + "\n", "oneline": pad + " ".join(stm) + "\n", "oneline-noeol": pad + " ".join(stm), "crlf": "\r\n".join(stm) + "\r\n",
                           "twolines": pad + " ".join(stm[:k // 2]) + "\n" + " ".join(stm[k // 2:]) + "\n"}
                ref = self.probe.case(["new A 0", "parse A P %s" % hx(layouts["multi"].encode()), "run A P 100000"])
                if ref.crashed: continue
                if not ref.replies[1].startswith("ok"):
                    self.viol("cli|reference-rejected", "a program made of valid statements (one per line, some with literals/comments spanning lines) is refused by the library: %s" % ref.replies[1][:120], {"ops": [], "source": layouts["multi"][:3000]}); continue
                want = unhx(rfields(ref.replies[2])[2].get("out", "-"))
                for lname, text in layouts.items():
                    fn = os.path.join(work, "p.bloc"); open(fn, "wb").write(text.encode())
                    # third reader: the one behind `include` (the including file holds nothing else)
                    open(os.path.join(work, "main.bloc"), "w").write('include "p.bloc";\n')
                    for mode in ("file", "stdin", "include"):
                        cmd = [blocbin, fn] if mode == "file" else ([blocbin, "-"] if mode == "stdin" else [blocbin, os.path.join(work, "main.bloc")])
                        try:
                            p = subprocess.run(cmd, input=text.encode() if mode == "stdin" else b"", stdout=subprocess.PIPE, stderr=subprocess.PIPE, env=env, cwd=work, timeout=60)
                        except subprocess.TimeoutExpired:
                            self.res["inconclusive"] += 1; continue
                        self.res["evaluations"] += 1; bump(self.res, "cli_runs")
                        if p.stdout != want or p.returncode != 0:
                            self.viol("cli|%s|%s" % (mode, lname), "bloc %s with the %s layout (%d statements, %d bytes of padding): exit %d, output differs from the library's (%d vs %d bytes); stderr: %s"
                                      % (mode, lname, k, len(pad), p.returncode, len(p.stdout), len(want), p.stderr.decode("latin-1")[:120]), {"cmd": cmd, "source": text[:3000], "ops": []}); break
                        else:
                            self.res["nontrivial"].add(case_hash(["cli", mode, lname, text]))
        finally:
            shutil.rmtree(work, ignore_errors=True)


def plan(tier, seed):
    sh = [{"kind": "splits", "k": k, "n": 8, "seed": seed, "tier": tier} for k in range(8 if tier == "quick" else 16)]
    sh += [{"kind": "boundary", "k": k, "n": 8, "seed": seed, "tier": tier} for k in range(8)]
    sh += [{"kind": "cli", "k": k, "n": 2, "seed": seed, "tier": tier} for k in range(2)]
    return sh


def run_shard(desc):
    s = Sh(desc)
    try:
        getattr(s, desc["kind"])()
    finally:
        s.probe.close()
    return s.res


def replay(wit):
    print(wit["witness"].get("source", ""))
    r = generic_replay(wit)
    return 1 if r.crashed else 0
