"""C18 — csv, file, sqlite3, utf8 modules move data losslessly and tolerate any argument.

Generated scripts use the real modules (ASan+UBSan build of the working tree, loaded with `import`) in a
trusted context whose working directory is a scratch directory.  All data enters through host-stored
variables (bit-exact, the scanner is not in the loop) and leaves through `get` (bit-exact serialisation).
Oracles: csv = round trip against the original row (whole record and line by line); file = a bytearray
model of the stream plus python reading the file itself afterwards; sqlite3 = the values read back by the
script AND by CPython's own sqlite3 from the same database file; utf8 = python's decoder.  A second family
of cases feeds null, out-of-range and malformed arguments: the only assertion there is `BLOC value or BLOC
error, no sanitizer report, no foreign exception`."""
import os, random, shutil, sqlite3 as pysqlite, struct, tempfile
from vlib import *
import vlib as _vlib

def add_violation(res, sig, what, witness):
    # this check's workloads cannot legitimately need much memory: an allocator-limit report is a violation here
    _vlib.add_violation(res, sig, what, witness, keep_exhaustion=True)


PROPERTY = "C18"
LEVEL = "exploration"
RULE = ("one evaluation = one generated script run in a fresh trusted context with the modules loaded, judged by its sub-oracle (csv: "
        "deserialize(serialize(row)) == row whole and line by line; file: every value returned equals the bytearray model and the file read by "
        "python equals the model; sqlite3: rows read back by the script and by CPython's sqlite3 equal the bound tuples in content and type; "
        "utf8: count/at/substr/insert/remove/string equal python's decoder; tolerance: value or BLOC error, no sanitizer report, no foreign "
        "exception); non-trivial = the sub-oracle compared at least one data value (tolerance cases: the script reached a module call); "
        "distinct = distinct (script, data) pairs, hashed")
ASSUMPTIONS = ["python bytes/bytearray/codecs/sqlite3 as independent readers", "glibc stdio semantics for seek/append (C11 7.21.5.3: a positioning call "
               "is placed between a read and a write)", "NaN is not bound to SQL parameters (SQLite itself stores NULL for it)",
               "U+0000 is probed by one dedicated case only", "gcc ASan/UBSan runtimes; libsqlite3 itself is not instrumented (its malloc/free/memcpy are intercepted)"]

IMIN = -(1 << 63); IMAX = (1 << 63) - 1
BUF = 4096


def get_val(reply):
    head, pos, kw = rfields(reply)
    if head == "val":
        return ("val", parse_value(pos[0]))
    if head == "rerr":
        return ("err", int(pos[0]), unhx(pos[1]).decode("latin-1"))
    if head == "foreign":
        return ("foreign", unhx(pos[0]).decode("latin-1") + ": " + (unhx(pos[1]).decode("latin-1") if len(pos) > 1 else ""))
    return ("bad", reply[:100])


def tab_s(items):
    return "ts1[" + ",".join(enc_str(x) for x in items) + "]"


class Sh:
    def __init__(self, desc):
        self.desc = desc; self.res = new_result()
        self.dir = tempfile.mkdtemp(prefix="c18_")
        self.probe = Probe("asan", modules=True, cwd=self.dir, timeout=60)
        self.rnd = random.Random("%s-c18-%s-%s" % (desc["seed"], desc["kind"], desc["k"]))
        self.nfile = 0

    def close(self):
        self.probe.close()
        shutil.rmtree(self.dir, ignore_errors=True)

    def viol(self, cls, what, ops, extra=None):
        w = {"ops": ops}
        if extra: w.update(extra)
        add_violation(self.res, "C18|%s" % cls, what, w)

    def stop(self):
        return self.res["counters"].get("worker_crashes", 0) > CRASH_BUDGET

    def case(self, ops, label, files=None):
        """runs one case; returns replies or None (crash / timeout / foreign exception already recorded)"""
        r = self.probe.case(ops)
        self.res["evaluations"] += 1
        wit = {"files": files} if files else None
        if r.timeout:
            self.res["inconclusive"] += 1; bump(self.res, "timeouts"); return None
        if r.crashed:
            bump(self.res, "worker_crashes")
            self.viol("crash:%s" % r.sig, "%s: %s" % (label, r.sig), ops, dict(wit or {}, report=r.report[-3000:])); return None
        for rep in r.replies:
            if rep.startswith("foreign"):
                g = get_val(rep)
                self.viol("foreign:%s" % g[1].split(":")[0].strip(), "%s: a non-BLOC exception left the interpreter: %s" % (label, g[1]), ops, wit); return None
            if rep.startswith("herr"):
                raise HarnessFailure("harness error in C18 case %s: %s" % (label, rep))
        return r.replies

    def script_ops(self, sets, text, gets, budget=50000):
        ops = ["new A 1"] + ["set A %s %s" % (hx(n), v) for n, v in sets]
        ops += ["parse A P %s" % hx(text), "run A P %d" % budget]
        ops += ["get A %s" % hx(g) for g in gets] + ["free A"]
        return ops, 1 + len(sets), 2 + len(sets), 3 + len(sets)

    # =========================================================================================== csv
    def csv_formats(self):
        r = self.rnd
        k = r.random()
        if k < 0.25: return (44, 34)
        if k < 0.5: return r.choice([(59, 34), (9, 39), (124, 94), (44, 39), (32, 34), (44, 32), (58, 124)])
        if k < 0.7: return r.choice([(233, 34), (44, 171), (255, 128), (128, 255), (200, 201), (44, 255), (160, 34)])
        if k < 0.8: return r.choice([(10, 34), (13, 34), (44, 10), (44, 13), (1, 2), (127, 126)])
        while True:
            s, e = r.randint(1, 255), r.randint(1, 255)
            if s != e: return (s, e)

    def csv_field(self, sep, enc):
        r = self.rnd
        k = r.random()
        if k < 0.15: return b""
        n = r.choice([1, 1, 2, 3, 4, 6, 9])
        alph = [sep, enc, 10, 13, 32, 97, 98, 32, enc, sep]
        if r.random() < 0.4: alph += [r.randint(1, 255) for _ in range(3)] + [0x80, 0xff, 0xe9]
        return bytes(r.choice(alph) for _ in range(n))

    def csv_roundtrip(self, n):
        for _ in range(n):
            if self.stop(): return
            sep, enc = self.csv_formats()
            nf = self.rnd.choice([1, 2, 2, 3, 4, 6])
            row = [self.csv_field(sep, enc) for _ in range(nf)]
            if len(row) == 1 and row[0] == b"":
                row = [b"x"]
            if self.rnd.random() < 0.15: row[-1] = b""
            if len(row) == 1 and row[0] == b"":
                row.append(b"")
            ctor = "csv(%d, %d)" % (sep, enc)
            sets = [("R", tab_s(row))]
            if enc == 34 and self.rnd.random() < 0.3:
                sets.append(("F", enc_str(bytes([sep])))); ctor = "csv(F)"
            elif self.rnd.random() < 0.2:
                sets.append(("F", enc_str(bytes([sep, enc])))); ctor = "csv(F)"
            text = 'import csv; c = %s; s = c.serialize(R); o = tab(0, ""); m = c.deserialize(s, o); e = c.in_error();' % ctor
            ops, ip, ir, ig = self.script_ops(sets, text, ["S", "O", "M", "E", "R"])
            label = "csv %s row %r" % (ctor, row)
            rep = self.case(ops, label)
            if rep is None: continue
            if not rep[ir].startswith("ok"):
                self.viol("csv|roundtrip-error", "%s: script failed: %s" % (label, rep[ir][:200]), ops); continue
            S, O, M, E, R = [get_val(x) for x in rep[ig:ig + 5]]
            if R != ("val", parse_value(tab_s(row))):
                self.viol("csv|argument-modified", "%s: serialize changed its argument" % label, ops); continue
            got = [it[1] if it[0] == "s" else None for it in O[1][3]] if O[0] == "val" and O[1][0] == "t" else None
            if got != row or M != ("val", ("b", False)) or E != ("val", ("b", False)):
                self.viol("csv|roundtrip", "%s: serialized %r, deserialized %r more=%s in_error=%s" % (label, S[1][1] if S[0] == "val" else S, got, M[1:], E[1:]), ops); continue
            self.res["nontrivial"].add(case_hash(["csv", sep, enc, [x.hex() for x in row]]))
            bump(self.res, "csv_roundtrips")
            bump(self.res, "csv_fields_compared", len(row))
            ser = S[1][1]
            if len(self.res["samples"]) < 2 and b"\n" in ser:
                self.res["samples"].append({"csv_format": [sep, enc], "row": [x.hex() for x in row], "serialized": ser.hex()})
            # ---- line by line
            if 10 in (sep, enc) or 13 in (sep, enc) or b"\n" not in ser:
                continue
            lines = [l + b"\n" for l in ser.split(b"\n")]
            lines[-1] = lines[-1][:-1]
            if lines[-1] == b"": lines.pop()
            text2 = ('import csv; c = %s; o = tab(0, ""); k = tab(0, true); m = c.deserialize(L.at(0), o); k.concat(m); i = 1; '
                     'while i < L.count() loop m = c.deserialize_next(L.at(i), o); k.concat(m); i = i + 1; end loop; e = c.in_error();' % ctor)
            sets2 = [s for s in sets if s[0] == "F"] + [("L", tab_s(lines))]
            ops2, ip, ir, ig = self.script_ops(sets2, text2, ["O", "K", "E"])
            rep = self.case(ops2, label + " line by line")
            if rep is None: continue
            if not rep[ir].startswith("ok"):
                self.viol("csv|lines-error", "%s: line-by-line script failed: %s" % (label, rep[ir][:200]), ops2); continue
            O, K, E = [get_val(x) for x in rep[ig:ig + 3]]
            got = [it[1] if it[0] == "s" else None for it in O[1][3]] if O[0] == "val" and O[1][0] == "t" else None
            ks = [it[1] for it in K[1][3]] if K[0] == "val" else None
            expk = [True] * (len(lines) - 1) + [False]
            if got != row or ks != expk or E != ("val", ("b", False)):
                self.viol("csv|lines", "%s: fed as lines %r: fields %r, more-flags %r (expected %r), in_error=%s" % (label, lines, got, ks, expk, E[1:]), ops2); continue
            self.res["nontrivial"].add(case_hash(["csvl", sep, enc, [x.hex() for x in row]]))
            bump(self.res, "csv_line_by_line_roundtrips"); bump(self.res, "csv_lines_fed", len(lines))

    def csv_typed(self, n):
        """serialize(tuple / table of integer, decimal, boolean): each field must equal str(value) of the interpreter itself"""
        r = self.rnd
        for _ in range(n):
            if self.stop(): return
            vals = []
            for _ in range(r.randint(1, 4)):
                k = r.random()
                if k < 0.4: vals.append(("i", r.choice([0, 1, -1, IMAX, IMIN, r.randint(-10 ** 6, 10 ** 6)])))
                elif k < 0.6: vals.append(("n", r.choice([0.5, -1.25, 1e100, 3.0, 1e-7])))
                elif k < 0.8: vals.append(("b", r.random() < 0.5))
                else: vals.append(("s", bytes(r.choice(b'a,"\n ') for _ in range(r.randint(0, 4)))))
            enc = {"i": lambda v: enc_int(v), "n": lambda v: enc_num_bits(d2bits(v)), "b": lambda v: enc_bool(v), "s": lambda v: enc_str(v)}
            tup = "r(" + ",".join(enc[k](v) for k, v in vals) + ")"
            text = 'import csv; c = csv(); s = c.serialize(T); o = tab(0, ""); m = c.deserialize(s, o); x = tab(0, "");' + \
                   "".join(" x.concat(str(T@%d));" % (i + 1) for i in range(len(vals)))
            ops, ip, ir, ig = self.script_ops([("T", tup)], text, ["O", "X"])
            rep = self.case(ops, "csv typed tuple %r" % (vals,))
            if rep is None: continue
            if not rep[ir].startswith("ok"):
                self.viol("csv|typed-error", "serialize(tuple %r) failed: %s" % (vals, rep[ir][:200]), ops); continue
            O, X = [get_val(x) for x in rep[ig:ig + 2]]
            if O != X or len(O[1][3]) != len(vals):
                if len(vals) == 1 and vals[0] == ("s", b""):
                    continue       # a single empty field is outside the property
                self.viol("csv|typed", "serialize(tuple %r): fields %r, str() of the members %r" % (vals, O[1][3] if O[0] == "val" else O, X[1][3] if X[0] == "val" else X), ops); continue
            self.res["nontrivial"].add(case_hash(["csvt", repr(vals)])); bump(self.res, "csv_typed_tuples")

    def csv_tolerance(self, n):
        r = self.rnd
        alph = [44, 34, 10, 13, 32, 97, 98, 34, 34, 44, 0, 255]
        for _ in range(n):
            if self.stop(): return
            def line():
                k = r.random()
                if k < 0.1: return b""
                return bytes(r.choice(alph) for _ in range(r.randint(1, 12)))
            ctor = r.choice(["csv()", "csv(44, 34)", "csv(F)", "csv(N, 34)", "csv(44, N)", "csv(Z)", "csv(1099511627776, -5)", "csv(-1, 300)", 'csv("")', 'csv(",")'])
            steps = []
            tabs = ['o = tab(0, "");', 'o = tab(1, "x");', 'o = tab(2, string());', 'o = Y;', 'o = tab(3, "a,b");']
            steps.append(r.choice(tabs))
            for i in range(r.randint(1, 5)):
                k = r.random()
                arg = r.choice(["L%d" % i, "Z", "L%d" % i])
                if k < 0.3: steps.append("m = c.deserialize(%s, o);" % arg)
                elif k < 0.7: steps.append("m = c.deserialize_next(%s, o);" % arg)
                elif k < 0.8: steps.append("s = c.serialize(o);")
                elif k < 0.85: steps.append("s = c.serialize(Y);")
                elif k < 0.9: steps.append("s = c.serialize(tup(1, Z, raw(2, 65), N));")
                elif k < 0.95: steps.append("p = c.error_pos(); q = c.in_error();")
                else: steps.append(r.choice(tabs))
            # every step is protected so that a BLOC error in one step does not hide the next
            body = " ".join("begin %s exception when others then nop; end;" % s for s in steps)
            text = "import csv; begin c = %s; exception when others then c = csv(); end; %s" % (ctor, body)
            sets = [("F", enc_str(bytes(r.choice(alph) for _ in range(r.randint(0, 3))))), ("N", "Zi0"), ("Z", "Zs0"), ("Y", "Zs1")] + \
                   [("L%d" % i, enc_str(line())) for i in range(6)]
            ops, ip, ir, ig = self.script_ops(sets, text, [])
            rep = self.case(ops, "csv tolerance %s" % text[:200])
            if rep is None: continue
            if rep[ip].startswith("ok"):
                self.res["nontrivial"].add(case_hash(["csvtol", text, repr(sets)]))
                bump(self.res, "csv_tolerance_scripts")
            else:
                bump(self.res, "tolerance_scripts_refused_at_compile_time")

    # =========================================================================================== file
    def file_data(self, maxlen=None):
        r = self.rnd
        n = r.choice([0, 1, 2, 3, 7, 16, 100, 1000, 4095, 4096, 4097, 5000, 8191, 8192, 8193, 9000])
        if maxlen is not None: n = min(n, maxlen)
        k = r.random()
        if k < 0.3:  # text with line breaks
            out = bytearray()
            while len(out) < n:
                out += bytes(r.choice(b"abcdefgh ,;\"") for _ in range(r.choice([0, 1, 5, 20, 70]))) + r.choice([b"\n", b"\r\n", b"\n", b"\n\n"])
            return bytes(out[:n])
        if k < 0.5:
            return bytes(r.choice(b"ab\n") for _ in range(n))
        if k < 0.6:
            return bytes(r.choice([0, 10, 255, 26, 13, 97]) for _ in range(n))
        return bytes(r.getrandbits(8) for _ in range(n))

    def file_histories(self, n):
        r = self.rnd
        for _ in range(n):
            if self.stop(): return
            self.nfile += 1
            name = "f%d_%d.dat" % (self.desc["k"], self.nfile)
            path = os.path.join(self.dir, name)
            mode = r.choice(["w", "wb", "w+", "wb+", "r+", "rb+", "a", "a+", "r", "rb", "w+", "r+"])
            initial = b""
            if mode[0] in "ra" or r.random() < 0.3:
                initial = self.file_data()
                with open(path, "wb") as f: f.write(initial)
            elif os.path.exists(path):
                os.unlink(path)
            data = bytearray(b"" if mode[0] == "w" else initial)
            # glibc: "a" positions at the end when the file is opened; for "a+" the initial position is not specified by C11
            # (7.21.5.3), so nothing position-dependent is asserted there before the first seekset()/write()
            pos = 0 if mode[0] != "a" else (len(data) if "+" not in mode else None)
            can_r = mode[0] == "r" or "+" in mode; can_w = mode[0] in "wa" or "+" in mode; app = mode[0] == "a"
            sets = [("NAME", enc_str(name.encode())), ("MODE", enc_str(mode.encode()))]
            lines = ["import file;", "f = file(NAME, MODE);"]
            expect = []      # (variable, expected serialised value, what)
            last = None      # 'r' / 'w' / None: kind of the last transfer since the last positioning call
            nops = r.randint(1, 12)
            closed = False
            for i in range(nops):
                kinds = ["seekset", "seekcur", "seekend", "position"]
                if can_r: kinds += ["read_s", "read_b", "readln", "read_s", "read_b", "readln"]
                if can_w: kinds += ["write_s", "write_b", "write_s", "write_b", "flush"]
                k = r.choice(kinds)
                if pos is None and k in ("read_s", "read_b", "readln", "seekcur", "position") or (k.startswith("read") and last == "w"):
                    q = r.randint(0, len(data) + 2)
                    lines.append("q%d = f.seekset(%d);" % (i, q)); expect.append(("Q%d" % i, "i:0", "seekset(%d)" % q)); pos = q; last = None
                if k.startswith("write") and last == "r":
                    lines.append("q%d = f.seekcur(0);" % i); expect.append(("Q%d" % i, "i:0", "seekcur(0)")); last = None
                if k in ("write_s", "write_b"):
                    b = self.file_data(maxlen=r.choice([3, 100, 9000]))
                    sets.append(("W%d" % i, enc_str(b) if k == "write_s" else enc_bytes(b)))
                    lines.append("r%d = f.write(W%d);" % (i, i))
                    if app and b: pos = len(data)
                    if b:      # a zero-length write transfers nothing and does not extend the file
                        if pos > len(data): data += b"\0" * (pos - len(data))
                        data[pos:pos + len(b)] = b; pos += len(b)
                    last = "w"
                    expect.append(("R%d" % i, "i:%d" % len(b), "write of %d bytes" % len(b)))
                elif k in ("read_s", "read_b"):
                    cnt = r.choice([0, 1, 2, 3, 10, 100, 4095, 4096, 4097, 5000, 8192, 8193, 20000, -1, len(data), max(0, len(data) - pos), 1 << 20])
                    chunk = bytes(data[pos:pos + cnt]) if cnt > 0 else b""
                    lines.append("v%d = %s; r%d = f.read(v%d, %d);" % (i, '"~"' if k == "read_s" else 'raw(1, 126)', i, i, cnt))
                    pos += len(chunk); last = "r"
                    expect.append(("R%d" % i, "i:%d" % len(chunk), "read(%d) count" % cnt))
                    expect.append(("V%d" % i, enc_str(chunk) if k == "read_s" else enc_bytes(chunk), "read(%d) data at %d" % (cnt, pos - len(chunk))))
                elif k == "readln":
                    lines.append('v%d = "~"; r%d = f.readln(v%d);' % (i, i, i))
                    if pos >= len(data):
                        expect.append(("R%d" % i, "b:0", "readln at end of file")); expect.append(("V%d" % i, enc_str(b"~"), "variable after readln at end of file"))
                    else:
                        chunk = bytes(data[pos:pos + BUF]); nl = chunk.find(b"\n")
                        if nl >= 0: chunk = chunk[:nl + 1]
                        pos += len(chunk)
                        expect.append(("R%d" % i, "b:1", "readln")); expect.append(("V%d" % i, enc_str(chunk), "readln data at %d" % (pos - len(chunk))))
                    last = "r"
                elif k == "seekset":
                    q = r.choice([0, 1, len(data), len(data) + 3, r.randint(0, len(data) + 1), -1, BUF, BUF - 1])
                    lines.append("r%d = f.seekset(%d);" % (i, q))
                    if q >= 0: pos = q; expect.append(("R%d" % i, "i:0", "seekset(%d)" % q))
                    else: expect.append(("R%d" % i, "i:22", "seekset(%d)" % q))
                    last = None
                elif k == "seekcur":
                    q = r.choice([0, 1, -1, 5, -5, -len(data) - 10, BUF, -BUF])
                    lines.append("r%d = f.seekcur(%d);" % (i, q))
                    if pos + q >= 0: pos += q; expect.append(("R%d" % i, "i:0", "seekcur(%d)" % q))
                    else: expect.append(("R%d" % i, "i:22", "seekcur(%d)" % q))
                    last = None
                elif k == "seekend":
                    q = r.choice([0, -1, 1, -len(data), -len(data) - 1, -3, 2])
                    lines.append("r%d = f.seekend(%d);" % (i, q))
                    if len(data) + q >= 0: pos = len(data) + q; expect.append(("R%d" % i, "i:0", "seekend(%d)" % q))
                    else: expect.append(("R%d" % i, "i:22", "seekend(%d)" % q))
                    last = None
                elif k == "position":
                    lines.append("r%d = f.position();" % i); expect.append(("R%d" % i, "i:%d" % pos, "position()"))
                elif k == "flush":
                    lines.append("r%d = f.flush();" % i); expect.append(("R%d" % i, "b:1", "flush()")); last = None
            if r.random() < 0.5:
                lines.append("c = f.close(); st = f.stat(NAME); sz = st@2; ty = st@1;")
                expect += [("C", "b:1", "close()"), ("SZ", "i:%d" % len(data), "stat size after close"), ("TY", "i:1", "stat type")]
                closed = True
            text = " ".join(lines)
            ops, ip, ir, ig = self.script_ops(sets, text, [e[0] for e in expect])
            label = "file %s mode %s: %s" % (name, mode, " ".join(lines[2:])[:300])
            fw = {name: initial.hex() if len(initial) < 3000 else "len=%d" % len(initial)}
            rep = self.case(ops, label, files=fw)
            if rep is None: continue
            if not rep[ip].startswith("ok") or not rep[ir].startswith("ok"):
                self.viol("file|script-error", "%s: failed: %s / %s" % (label, rep[ip][:150], rep[ir][:150]), ops, {"files": fw}); continue
            bad = None
            for (var, exp, what), got in zip(expect, rep[ig:ig + len(expect)]):
                head, p, kw = rfields(got)
                g = p[0] if head == "val" and p else got[:60]
                if g != exp:
                    bad = "%s: got %s, expected %s" % (what, g[:80], exp[:80]); break
            if bad:
                cls = "file|" + bad.split(":")[0].split("(")[0].split(" ")[0]
                self.viol(cls, "%s -> %s" % (label, bad), ops, {"files": fw}); continue
            try:
                with open(path, "rb") as f: disk = f.read()
            except OSError as e:
                disk = None
            if disk != bytes(data):
                d0 = next((j for j in range(min(len(disk or b""), len(data))) if disk[j] != data[j]), min(len(disk or b""), len(data)))
                self.viol("file|content", "%s: file on disk (%s bytes) differs from the model (%d bytes) at offset %d" % (label, len(disk) if disk is not None else "missing", len(data), d0), ops, {"files": fw}); continue
            try: os.unlink(path)
            except OSError: pass
            self.res["nontrivial"].add(case_hash(["file", text, [s[1] for s in sets]]))
            bump(self.res, "file_histories"); bump(self.res, "file_ops_checked", len(expect)); bump(self.res, "file_bytes_compared_on_disk", len(data))
            bump(self.res, "file_mode_" + mode)

    def file_tolerance(self, n):
        r = self.rnd
        for _ in range(n):
            if self.stop(): return
            self.nfile += 1
            name = "t%d_%d.dat" % (self.desc["k"], self.nfile)
            with open(os.path.join(self.dir, name), "wb") as f: f.write(self.file_data(maxlen=5000))
            calls = ["f.write(ZS)", "f.write(ZX)", "f.write(S)", "f.write(X)", "f.read(vs, ZI)", "f.read(vx, ZI)", "f.read(vs, BIG)", "f.read(vx, BIG)", "f.read(vs, -1)",
                     "f.read(vs, 9223372036854775807)", "f.read(vx, 9223372036854775807)", "f.read(vs, 2147483648)", "f.read(vs, 4294967297)",
                     "f.readln(vs)", "f.seekset(ZI)", "f.seekset(BIG)", "f.seekset(-9223372036854775807)", "f.seekcur(9223372036854775807)", "f.seekend(-9223372036854775807)", "f.seekcur(ZI)", "f.seekend(ZI)",
                     "f.position()", "f.flush()", "f.close()", "f.isopen()", "f.mode()", "f.filename()", "f.dirname()", "f.basename()", "f.stat()",
                     "f.open(NAME, MODE)", "f.open(ZS, MODE)", "f.open(NAME, ZS)", 'f.open(NAME, "zz")', 'f.open("", "r")', 'f.open("no/such/dir/x", "w")', 'f.open(".", "r")',
                     "f.stat(ZS)", 'f.stat("")', "f.stat(NAME)", 'f.stat(".")', "f.dir(ZS)", 'f.dir("nonexistent")', 'f.dir(".").count()', "f.dirname(ZS)", 'f.dirname("")', 'f.dirname("/")', 'f.dirname("a/")',
                     'f.dirname("//")', 'f.basename("")', 'f.basename("/")', 'f.basename("a//")', "f.basename(ZS)", "f.separator()"]
            ctor = r.choice(["file(NAME, MODE)", "file()", "file(ZS, MODE)", "file(NAME, ZS)", 'file(NAME, "")', "file(NAME, MODE)"])
            steps = ["x = %s;" % r.choice(calls) for _ in range(r.randint(1, 8))]
            body = " ".join("begin %s exception when others then nop; end;" % s for s in steps)
            text = 'import file; vs = ""; vx = raw(); begin f = %s; exception when others then f = file(); end; %s' % (ctor, body)
            sets = [("NAME", enc_str(name.encode())), ("MODE", enc_str(r.choice([b"r", b"w", b"a+", b"r+", b"w+", b"x", b"rw", b"+"]))), ("ZS", "Zs0"), ("ZX", "Zx0"), ("ZI", "Zi0"),
                    ("BIG", enc_int(r.choice([1 << 40, IMAX, IMIN, -1, 1 << 31, (1 << 32) + 5]))), ("S", enc_str(self.file_data(100))), ("X", enc_bytes(self.file_data(100)))]
            ops, ip, ir, ig = self.script_ops(sets, text, [])
            rep = self.case(ops, "file tolerance %s" % text[:300])
            if rep is None: continue
            if rep[ip].startswith("ok"):
                self.res["nontrivial"].add(case_hash(["filetol", text, repr(sets)])); bump(self.res, "file_tolerance_scripts")
            else:
                bump(self.res, "tolerance_scripts_refused_at_compile_time")

    # =========================================================================================== sqlite3
    def sql_value(self, kind):
        r = self.rnd
        if r.random() < 0.15: return None
        if kind == "i": return ("i", r.choice([0, 1, -1, IMAX, IMIN, 255, 1 << 31, -(1 << 31) - 1, 1 << 53, r.randint(IMIN, IMAX)]))
        if kind == "n":
            return ("n", r.choice([0.0, -0.0, 0.5, -1.25, 1e308, 1.7976931348623157e308, 5e-324, 2.2250738585072014e-308, float("inf"), float("-inf"), 1.0, 3.0,
                                   r.uniform(-1e6, 1e6), struct.unpack("<d", struct.pack("<Q", (r.getrandbits(64) & ~(0x7ff << 52)) | (r.randint(1, 2046) << 52)))[0]]))
        n = r.choice([0, 1, 2, 5, 15, 16, 17, 40, 300])
        k = r.random()
        if k < 0.4: b = bytes(r.choice(b"abc '\"%_") for _ in range(n))
        elif k < 0.7: b = bytes(r.getrandbits(8) for _ in range(n))
        elif k < 0.85: b = bytes(r.choice([0, 97, 0, 255]) for _ in range(n))
        else: b = "é€𝄞a".encode() * (n // 4)
        return ("s" if kind == "s" else "x", b)

    @staticmethod
    def sql_enc(v, kind):
        if v is None: return "Z%s0" % kind
        if v[0] == "i": return enc_int(v[1])
        if v[0] == "n": return enc_num_bits(d2bits(v[1]))
        if v[0] == "s": return enc_str(v[1])
        return enc_bytes(v[1])

    @staticmethod
    def sql_same(v, got):
        """bound value vs parsed value read back by the script"""
        if v is None: return got[0] == "null"
        if v[0] == "n": return got == ("n", d2bits(v[1]))
        return got == (v[0], v[1])

    @staticmethod
    def py_same(v, pv):
        if v is None: return pv is None
        if v[0] == "i": return type(pv) is int and pv == v[1]
        if v[0] == "n": return type(pv) is float and d2bits(pv) == d2bits(v[1])
        if v[0] == "s": return type(pv) is bytes and pv == v[1]
        return type(pv) is bytes and pv == v[1]

    def sqlite_histories(self, n):
        r = self.rnd
        for _ in range(n):
            if self.stop(): return
            self.nfile += 1
            name = "d%d_%d.db" % (self.desc["k"], self.nfile)
            path = os.path.join(self.dir, name)
            kinds = [r.choice("insx") for _ in range(r.randint(1, 5))]
            nrows = r.randint(1, 5)
            rows = [[self.sql_value(k) for k in kinds] for _ in range(nrows)]
            cols = ",".join("c%d" % i for i in range(len(kinds)))
            qm = ",".join("?" for _ in kinds)
            sets = [("NAME", enc_str(name.encode()))]
            lines = ["import sqlite3;", "db = sqlite3(NAME);", 'db.exec("create table t (k integer primary key, %s)");' % cols]
            route = []
            # bulk insert: one prepared statement, bound and executed once per row (a null must replace the previous row's value)
            bulk = r.random() < 0.3
            if bulk: lines.append('db.prepare("insert into t values (?,%s)");' % qm)
            for j, row in enumerate(rows):
                sets.append(("R%d" % j, "r(" + ",".join([enc_int(j)] + [self.sql_enc(v, k) for v, k in zip(row, kinds)]) + ")"))
                how = "prepared-reused" if bulk else r.choice(["exec", "prepared", "prepared-retained", "query"])
                route.append(how)
                if how == "prepared-reused":
                    lines.append("db.bind(R%d); db.execute();" % j)
                elif how == "exec":
                    lines.append('db.exec("insert into t values (?,%s)", R%d);' % (qm, j))
                elif how == "query":
                    lines.append('z%d = db.query("insert into t values (?,%s) returning k", R%d);' % (j, qm, j))
                elif how == "prepared":
                    lines.append('db.prepare("insert into t values (?,%s)"); db.bind(R%d); db.execute(); db.finalize();' % (qm, j))
                else:
                    # the bound tuple is a copy that the script drops before execute(): the statement must have kept its own data
                    lines.append('db.prepare("insert into t values (?,%s)"); y = R%d; db.bind(y); y = tup(0); yy = "%s" + str(%d); db.execute(); db.finalize();' % (qm, j, "o" * 40, j))
            if bulk: lines.append("db.finalize();")
            lines.append('q = db.query("select %s from t order by k");' % cols)
            pick = r.randrange(nrows)
            lines.append('p = db.query("select %s from t where k = ?", tup(%d));' % (cols, pick))
            lines.append('db.prepare("select %s from t order by k"); db.execute();' % cols)
            for j in range(nrows + 1):
                lines.append("h%d = db.fetch(w%d);" % (j, j))
            lines.append("db.finalize();")
            lines.append('ty = db.query("select %s from t order by k");' % ",".join("typeof(c%d)" % i for i in range(len(kinds))))
            if r.random() < 0.5: lines.append("cl = db.close();")
            text = " ".join(lines)
            # w0.. must exist for the parser: declare them as tuples first
            text = text.replace("import sqlite3;", "import sqlite3; " + " ".join("w%d = tup(0);" % j for j in range(nrows + 1)), 1)
            gets = ["Q", "P", "TY"] + ["H%d" % j for j in range(nrows + 1)] + ["W%d" % j for j in range(nrows)]
            ops, ip, ir, ig = self.script_ops(sets, text, gets)
            label = "sqlite3 %s kinds %s rows %r routes %r" % (name, "".join(kinds), rows, route)
            rep = self.case(ops, label)
            if rep is None: continue
            if not rep[ip].startswith("ok") or not rep[ir].startswith("ok"):
                self.viol("sqlite3|script-error", "%s: failed: %s / %s" % (label[:400], rep[ip][:150], rep[ir][:200]), ops); continue
            vals = [get_val(x) for x in rep[ig:ig + len(gets)]]
            Q, P, TY = vals[0], vals[1], vals[2]
            H = vals[3:3 + nrows + 1]; W = vals[3 + nrows + 1:]
            bad = None
            def rows_of(v):
                if v[0] != "val" or v[1][0] != "t": return None
                return [it[2] if it[0] == "r" else None for it in v[1][3]]
            qr = rows_of(Q)
            if qr is None or len(qr) != nrows: bad = ("query", "query returned %r" % (Q,))
            tn = {"i": b"integer", "n": b"real", "s": b"text", "x": b"blob"}
            for j, row in enumerate(rows):
                if bad: break
                for i, v in enumerate(row):
                    if not self.sql_same(v, qr[j][i]):
                        bad = ("readback|%s|%s" % (kinds[i] if v is not None else "null", route[j]), "row %d column %d bound %r (via %s), query() returned %r" % (j, i, v, route[j], qr[j][i])); break
                    if W[j][0] != "val" or W[j][1][0] != "r" or not self.sql_same(v, W[j][1][2][i]):
                        bad = ("fetch|%s|%s" % (kinds[i] if v is not None else "null", route[j]), "row %d column %d bound %r (via %s), fetch() returned %r" % (j, i, v, route[j], W[j])); break
            if not bad:
                hs = [h[1][1] if h[0] == "val" else None for h in H]
                if hs != [True] * nrows + [False]:
                    bad = ("fetch-flags", "fetch() flags %r for %d rows" % (hs, nrows))
            if not bad:
                pr = rows_of(P)
                if pr is None or len(pr) != 1 or any(not self.sql_same(v, g) for v, g in zip(rows[pick], pr[0])):
                    bad = ("bound-select", "select with bound key %d returned %r" % (pick, P))
            if not bad:
                tr = rows_of(TY)
                for j, row in enumerate(rows):
                    for i, v in enumerate(row):
                        exp = b"null" if v is None else tn[kinds[i]]
                        if tr is None or tr[j][i] != ("s", exp):
                            bad = ("storage-class|%s|%s" % (kinds[i] if v is not None else "null", route[j]), "row %d column %d bound %r (via %s): typeof() is %r" % (j, i, v, route[j], tr[j][i] if tr else TY)); break
                    if bad: break
            if not bad:
                # independent reader
                try:
                    con = pysqlite.connect(path); con.text_factory = bytes
                    got = con.execute("select %s from t order by k" % cols).fetchall()
                    con.close()
                except Exception as e:
                    got = None; bad = ("independent-reader", "python sqlite3 cannot read the database: %r" % (e,))
                if got is not None:
                    if len(got) != nrows: bad = ("independent-reader", "python reads %d rows, %d inserted" % (len(got), nrows))
                    for j, row in enumerate(rows):
                        if bad: break
                        for i, v in enumerate(row):
                            if not self.py_same(v, got[j][i]):
                                bad = ("independent|%s|%s" % (kinds[i] if v is not None else "null", route[j]), "row %d column %d bound %r (via %s), python reads %r" % (j, i, v, route[j], got[j][i])); break
            for ext in ("", "-journal", "-wal", "-shm"):
                try: os.unlink(path + ext)
                except OSError: pass
            if bad:
                self.viol("sqlite3|" + bad[0], "%s -> %s" % (label[:300], bad[1][:400]), ops); continue
            self.res["nontrivial"].add(case_hash(["sql", text, [s[1] for s in sets]]))
            bump(self.res, "sqlite_histories"); bump(self.res, "sqlite_values_compared", nrows * len(kinds) * 3)
            for h in route: bump(self.res, "sqlite_route_" + h)

    def sqlite_tolerance(self, n):
        r = self.rnd
        for _ in range(n):
            if self.stop(): return
            calls = ['db.exec(ZS)', 'db.exec("")', 'db.exec("create table t (a,b)")', 'db.exec("insert into t values (?,?)", ZR)', 'db.exec("insert into t values (?,?)", tup(1))',
                     'db.exec("insert into t values (?,?)", tup(1,2,3,4))', 'db.exec("insert into t values (?,?)", tup(true, 1.5))', 'db.exec("nonsense")', 'db.query(ZS)', 'db.query("select 1; select 2")',
                     'db.query("select * from t")', 'db.query("select * from t where a = ?", ZR)', 'db.query("select ?", tup(ZX))', 'db.query("select ?, ?", tup(X0, S0))', 'db.query("select null")', 'db.query("")',
                     'db.prepare(ZS)', 'db.prepare("select * from t")', 'db.prepare("select ?, ?")', 'db.prepare("nonsense")', 'db.bind(ZR)', 'db.bind(tup(1))', 'db.bind(tup(1,2,3))', 'db.bind(tup(S0, X0))',
                     'db.execute()', 'db.header()', 'db.fetch(w)', 'db.finalize()', 'db.errmsg()', 'db.close()', 'db.isopen()', 'db.open(":memory:")', 'db.open(ZS)', 'db.open("no/such/dir/x.db")',
                     'sqlite3(db)', 'sqlite3(ZO)']
            ctor = r.choice(['sqlite3(":memory:")', 'sqlite3(":memory:")', "sqlite3()", "sqlite3(ZS)", 'sqlite3("no/such/dir/x.db")', 'sqlite3("")'])
            steps = ["x = %s;" % r.choice(calls) for _ in range(r.randint(1, 10))]
            body = " ".join("begin %s exception when others then nop; end;" % s for s in steps)
            text = 'import sqlite3; w = tup(0); T = tab(1, 1); ZO = sqlite3(); begin db = %s; exception when others then db = sqlite3(); end; %s' % (ctor, body)
            sets = [("ZS", "Zs0"), ("ZX", "Zx0"), ("ZR", "Zr0"), ("X0", enc_bytes(b"")), ("S0", enc_str(b""))]
            ops, ip, ir, ig = self.script_ops(sets, text, [])
            rep = self.case(ops, "sqlite3 tolerance %s" % text[:400])
            if rep is None: continue
            if rep[ip].startswith("ok"):
                self.res["nontrivial"].add(case_hash(["sqltol", text])); bump(self.res, "sqlite_tolerance_scripts")
            else:
                bump(self.res, "tolerance_scripts_refused_at_compile_time")

    # =========================================================================================== utf8
    PLANES = [0x41, 0x7f, 0x80, 0xe9, 0x7ff, 0x800, 0x20ac, 0xd7ff, 0xe000, 0xfeff, 0xffff, 0x10000, 0x1d11e, 0x10ffff, 0x301, 0x1e00, 0x10400, 0x1e900, 0x3b1, 0x430]

    def u_string(self):
        r = self.rnd
        n = r.choice([0, 1, 2, 3, 5, 8, 20])
        out = []
        for _ in range(n):
            k = r.random()
            if k < 0.3: out.append(r.randint(1, 0x7f))
            elif k < 0.7: out.append(r.choice(self.PLANES))
            else:
                while True:
                    c = r.randint(1, 0x10ffff)
                    if not 0xd800 <= c <= 0xdfff: break
                out.append(c)
        return out

    @staticmethod
    def packed(cp):
        return int.from_bytes(chr(cp).encode("utf-8"), "big")

    def utf8_agree(self, n):
        r = self.rnd
        for _ in range(n):
            if self.stop(): return
            cps = self.u_string(); other = self.u_string()
            raw = "".join(map(chr, cps)).encode("utf-8"); oraw = "".join(map(chr, other)).encode("utf-8")
            assert raw.decode("utf-8") == "".join(map(chr, cps))
            model = [chr(c).encode("utf-8") for c in cps]
            sets = [("S", enc_str(raw)), ("T", enc_str(oraw))]
            lines = ["import utf8;", "u = utf8(S); v = utf8(T);"]
            expect = []
            def E(var, val, what): expect.append((var, val, what))
            lines.append("n0 = u.count(); z0 = u.rawsize(); s0 = u.string(); e0 = u.empty();")
            E("N0", "i:%d" % len(model), "count()"); E("Z0", "i:%d" % len(raw), "rawsize()"); E("S0", enc_str(raw), "string()"); E("E0", enc_bool(not model), "empty()")
            if model:
                lines.append("a = tab(0, 0); for i in 0 to u.count() - 1 loop a.concat(u.at(i)); end loop;")
                E("A", "ti1[" + ",".join("i:%d" % int.from_bytes(m, "big") for m in model) + "]", "at(0..count-1)")
            lattice = sorted(set([0, 1, 2, len(model) - 1, len(model), len(model) + 1, r.randint(0, len(model) + 2)]))
            lattice = [p for p in lattice if p >= 0]
            for step in range(r.randint(1, 8)):
                k = r.choice(["substr1", "substr2", "insert", "insertu", "insertself", "remove", "append", "appends", "concat", "copy"])
                p = r.choice(lattice + [len(model), 0]); c = r.choice([0, 1, 2, len(model), len(model) + 5, IMAX])
                t = "x%d" % step; T = t.upper()
                if k == "substr1":
                    lines.append("%s = u.substr(%d);" % (t, p)); E(T, enc_str(b"".join(model[p:])), "substr(%d)" % p)
                elif k == "substr2":
                    lines.append("%s = u.substr(%d, %d);" % (t, p, c)); E(T, enc_str(b"".join(model[p:p + c])), "substr(%d, %d)" % (p, c))
                elif k == "insert":
                    cp = r.choice(self.PLANES + [r.randint(1, 0x7f)])
                    lines.append("%s = u.insert(%d, %d); %ss = u.string(); %sn = u.count(); %sz = u.rawsize();" % (t, p, self.packed(cp), t, t, t))
                    ok = p <= len(model)
                    if ok: model.insert(p, chr(cp).encode("utf-8"))
                    E(T, enc_bool(ok), "insert(%d, U+%04X)" % (p, cp)); E(T + "S", enc_str(b"".join(model)), "string() after insert(%d, U+%04X)" % (p, cp))
                    E(T + "N", "i:%d" % len(model), "count() after insert"); E(T + "Z", "i:%d" % len(b"".join(model)), "rawsize() after insert")
                elif k in ("insertu", "insertself"):
                    src = [chr(x).encode("utf-8") for x in other] if k == "insertu" else list(model)
                    lines.append("%s = u.insert(%d, %s); %ss = u.string(); %sn = u.count();" % (t, p, "v" if k == "insertu" else "u", t, t))
                    cnt = 0
                    if p <= len(model):
                        model[p:p] = src; cnt = len(src)
                    E(T, "i:%d" % cnt, "insert(%d, %s)" % (p, "other" if k == "insertu" else "self")); E(T + "S", enc_str(b"".join(model)), "string() after insert(%d, %s utf8 object)" % (p, "another" if k == "insertu" else "the same"))
                    E(T + "N", "i:%d" % len(model), "count() after insert of an object")
                elif k == "remove":
                    lines.append("%s = u.remove(%d, %d); %ss = u.string(); %sn = u.count(); %sz = u.rawsize();" % (t, p, c, t, t, t))
                    ok = p < len(model)
                    if ok: del model[p:p + c]
                    E(T, enc_bool(ok), "remove(%d, %d)" % (p, c)); E(T + "S", enc_str(b"".join(model)), "string() after remove(%d, %d)" % (p, c))
                    E(T + "N", "i:%d" % len(model), "count() after remove"); E(T + "Z", "i:%d" % len(b"".join(model)), "rawsize() after remove")
                elif k == "append":
                    cp = r.choice(self.PLANES)
                    lines.append("u.append(%d); %ss = u.string();" % (self.packed(cp), t)); model.append(chr(cp).encode("utf-8"))
                    E(T + "S", enc_str(b"".join(model)), "string() after append(U+%04X)" % cp)
                elif k == "appends":
                    lines.append("u.append(T); %ss = u.string(); %sn = u.count();" % (t, t)); model += [chr(x).encode("utf-8") for x in other]
                    E(T + "S", enc_str(b"".join(model)), "string() after append(string)"); E(T + "N", "i:%d" % len(model), "count() after append(string)")
                elif k == "concat":
                    who = r.choice(["v", "u"])
                    lines.append("u.concat(%s); %ss = u.string(); %sn = u.count();" % (who, t, t)); model += ([chr(x).encode("utf-8") for x in other] if who == "v" else list(model))
                    E(T + "S", enc_str(b"".join(model)), "string() after concat(%s)" % ("another object" if who == "v" else "itself")); E(T + "N", "i:%d" % len(model), "count() after concat")
                elif k == "copy":
                    lines.append("%sc = utf8(u); u.append(65); %ss = %sc.string(); %sn = %sc.count();" % (t, t, t, t, t))
                    E(T + "S", enc_str(b"".join(model)), "string() of a copy taken before append"); E(T + "N", "i:%d" % len(model), "count() of a copy")
                    model.append(b"A")
                if len(b"".join(model)) > 4000: break
            lines.append("tv = v.string();"); E("TV", enc_str(oraw), "string() of the second object (never modified)")
            text = " ".join(lines)
            ops, ip, ir, ig = self.script_ops(sets, text, [e[0] for e in expect])
            label = "utf8 %r: %s" % (raw, " ".join(lines[2:])[:300])
            rep = self.case(ops, label)
            if rep is None: continue
            if not rep[ip].startswith("ok") or not rep[ir].startswith("ok"):
                self.viol("utf8|script-error", "%s: failed: %s / %s" % (label, rep[ip][:150], rep[ir][:150]), ops); continue
            bad = None
            for (var, exp, what), got in zip(expect, rep[ig:ig + len(expect)]):
                head, p, kw = rfields(got)
                g = p[0] if head == "val" and p else got[:60]
                if g != exp:
                    bad = (what, "%s: got %s, expected %s" % (what, g[:120], exp[:120])); break
            if bad:
                self.viol("utf8|" + bad[0].split("(")[0].replace(" ", "-"), "%s -> %s" % (label, bad[1]), ops); continue
            self.res["nontrivial"].add(case_hash(["utf8", text, raw.hex(), oraw.hex()]))
            bump(self.res, "utf8_histories"); bump(self.res, "utf8_values_compared", len(expect)); bump(self.res, "utf8_code_points_decoded", len(cps))
        if self.desc["k"] == 0:
            # U+0000 is valid UTF-8 input: one dedicated case
            sets = [("S", enc_str(b"a\x00b"))]
            ops, ip, ir, ig = self.script_ops(sets, "import utf8; u = utf8(S); n = u.count(); s = u.string();", ["N", "S"])
            rep = self.case(ops, "utf8 with U+0000")
            if rep is not None:
                N, S = [get_val(x) for x in rep[ig:ig + 2]]
                if N != ("val", ("i", 3)) or S != ("val", ("s", b"a\x00b")):
                    self.viol("utf8|nul", "utf8(\"a\\0b\"): count() %r string() %r; a UTF-8 decoder sees 3 code points" % (N[1:], S[1:]), ops)
                else:
                    self.res["nontrivial"].add("utf8nul")

    def utf8_tolerance(self, n):
        r = self.rnd
        for _ in range(n):
            if self.stop(): return
            k = r.random()
            if k < 0.3: raw = bytes(r.getrandbits(8) for _ in range(r.randint(0, 12)))
            elif k < 0.6: raw = bytes(r.choice([0xc2, 0xe0, 0xed, 0xf0, 0xf4, 0x80, 0xbf, 0xa0, 0x9f, 0x90, 0x8f, 0xc0, 0xc1, 0xf5, 0xff, 0x41, 0x20, 0xe2, 0x82, 0xac, 0xe1, 0xf0, 0x90, 0x9e]) for _ in range(r.randint(1, 10)))
            else: raw = "".join(chr(c) for c in self.u_string()).encode("utf-8")[: r.randint(0, 30)]
            P = [0, 1, 2, 3, 10, 100, -1, -2, IMAX, IMIN, 1 << 32, (1 << 32) + 1, 1 << 31, len(raw)]
            def pos(): return r.choice(P + ["ZI"])
            calls = ["u.at(%s)", "u.substr(%s)", "u.substr(%s, %s)", "u.remove(%s, %s)", "u.insert(%s, %s)", "u.insert(%s, v)", "u.insert(%s, u)", "u.insert(%s, zo)", "u.append(%s)", "u.append(ZS)", "u.append(B)",
                     "u.concat(zo)", "u.concat(u)", "u.reserve(%s)", "u.clear()", "u.toupper()", "u.tolower()", "u.normalize()", "u.capitalize()", "u.translit()", "u.string()", "u.count()", "u.rawsize()", "utf8(ZS)", "utf8(zo)", "utf8(u)"]
            steps = []
            for _ in range(r.randint(1, 8)):
                c = r.choice(calls)
                if c == "u.reserve(%s)":
                    c = c % r.choice([0, 1, 100, 1 << 16, -1, "ZI", IMIN])
                elif c == "u.append(%s)" or c.startswith("u.insert(%s, %s"):
                    cps = [0, 65, 0xc3a9, 0xe282ac, 0xf09d849e, 0xff, 0xc0, 0xffffffff, 1 << 32, -1, IMAX, IMIN, 0xe28200, 0x80, "ZI", 0x4141]
                    c = c % ((pos(), r.choice(cps)) if c.count("%s") == 2 else (r.choice(cps),))
                else:
                    c = c % tuple(pos() for _ in range(c.count("%s")))
                steps.append("x = %s;" % c)
            body = " ".join("begin %s exception when others then nop; end;" % s for s in steps)
            text = "import utf8; u = utf8(B); v = utf8(B); if B == \"~never~\" then zo = utf8(); end if; %s s = u.string(); n = u.count();" % body
            sets = [("B", enc_str(raw)), ("ZI", "Zi0"), ("ZS", "Zs0")]
            ops, ip, ir, ig = self.script_ops(sets, text, [])
            rep = self.case(ops, "utf8 tolerance on %r: %s" % (raw, " ".join(steps)[:300]))
            if rep is None: continue
            if rep[ip].startswith("ok"):
                self.res["nontrivial"].add(case_hash(["utf8tol", text, raw.hex()])); bump(self.res, "utf8_tolerance_scripts")
                if not rep[ir].startswith("ok"): bump(self.res, "utf8_tolerance_script_ended_with_error")
            else:
                bump(self.res, "tolerance_scripts_refused_at_compile_time")
                if len(self.res["samples"]) < 1: self.res["samples"].append({"refused": text[:300], "why": rep[ip][:200]})


QUICK = {"csv": 700, "csvtyped": 120, "csvtol": 450, "file": 450, "filetol": 350, "sqlite": 300, "sqlitetol": 350, "utf8": 600, "utf8tol": 600}


def plan(tier, seed):
    sh = []
    mult = 1 if tier == "quick" else 10
    for kind in ("csv", "file", "sqlite", "utf8"):
        for k in range(3):
            sh.append({"kind": kind, "k": k, "seed": seed, "tier": tier, "mult": mult})
    for kind in ("csvtol", "filetol", "sqlitetol", "utf8tol"):
        sh.append({"kind": kind, "k": 0, "seed": seed, "tier": tier, "mult": mult})
    return sh


def run_shard(desc):
    s = Sh(desc)
    m = desc["mult"]
    try:
        kind = desc["kind"]
        if kind == "csv":
            s.csv_roundtrip(QUICK["csv"] * m)
            if desc["k"] == 0: s.csv_typed(QUICK["csvtyped"] * m)
        elif kind == "csvtol": s.csv_tolerance(QUICK["csvtol"] * m)
        elif kind == "file": s.file_histories(QUICK["file"] * m)
        elif kind == "filetol": s.file_tolerance(QUICK["filetol"] * m)
        elif kind == "sqlite": s.sqlite_histories(QUICK["sqlite"] * m)
        elif kind == "sqlitetol": s.sqlite_tolerance(QUICK["sqlitetol"] * m)
        elif kind == "utf8": s.utf8_agree(QUICK["utf8"] * m)
        elif kind == "utf8tol": s.utf8_tolerance(QUICK["utf8tol"] * m)
    finally:
        s.close()
    return s.res


def replay(wit):
    w = wit["witness"]
    d = tempfile.mkdtemp(prefix="c18r_")
    try:
        for name, hexdata in (w.get("files") or {}).items():
            if not hexdata.startswith("len="):
                with open(os.path.join(d, name), "wb") as f: f.write(bytes.fromhex(hexdata))
        p = Probe("asan", modules=True, cwd=d)
        r = p.case(w["ops"])
        for op, rep in zip(w["ops"], r.replies + ["<no reply>"] * len(w["ops"])):
            o = op.split(" ")
            if o[0] == "parse": print("  program: %s" % unhx(o[3]).decode("latin-1"))
            print("  %s\n    -> %s" % (op[:160], rep[:300]))
        if r.crashed:
            print("CRASH signature=%s" % r.sig); print(r.report[:5000])
        p.close()
        return 1 if r.crashed else 0
    finally:
        shutil.rmtree(d, ignore_errors=True)
