"""C08 — a function call depends only on its arguments, never on earlier calls.

Reference-interpreter monitor (in the model every call starts from unset locals and copies of its arguments,
so any dependence on call history shows as a trace/result difference) over generated function sets and call
histories, a metamorphic twin (same call after a random history vs. in a fresh context), the recursion ladder
(1, 2, 254, 255 nested calls succeed, the 256th raises the recursion-limit error) and the live-context
conservation monitor (hook)."""
import random
from vlib import *
import model_lang as ml
import lang_diff as ld

PROPERTY = "C08"
LEVEL = "exploration"
RULE = ("one evaluation = one generated program made of function definitions (conditionally assigned locals, overloads by arity, table/string "
        "parameters mutated in place, locals named like the caller's variables, loops, handlers, calls of earlier functions) and a history of calls "
        "including failing calls and calls whose argument evaluation fails, compared with the reference interpreter (prints, results, caller "
        "variables, outcome) + context conservation; or one twin pair (call after history H vs. the same call in a fresh context); or one rung of "
        "the recursion ladder; non-trivial = at least two calls of one function were executed; distinct = program hashes")
ASSUMPTIONS = ["python reference interpreter: locals unset per call, arguments copied, overload by argument count", "declared parameter/return types are not enforced (manual) and never relied upon",
               "1 GiB stack for the 255-deep recursion under ASan", "gcc ASan/UBSan runtimes"]


class Sh(ld.DiffRunner):
    def __init__(self, desc):
        ld.DiffRunner.__init__(self, "C08", desc)
        self.route = desc.get("route", "cpp")

    def histories(self):
        n = 600 if self.desc["tier"] == "quick" else 12000
        r = self.rnd
        for _ in range(n):
            g = ml.Gen(r, "functions")
            funcs, prog = g.program(nstmts=r.randint(1, 3))
            # a history of guarded calls appended to the program: the same functions again and again with varying arguments
            sc = {"ints": list(g.INTS), "bools": list(g.BOOLS), "strs": list(g.STRS), "tabs": list(g.TABS), "loopv": [], "iters": [], "active": [], "locked": []}
            tail = prog[-1]; prog = prog[:-1]
            ncalls = r.randint(2, 12)
            for i in range(ncalls):
                f = r.choice(funcs)
                args = [g.arg_of(t, sc) for t in f["ptypes"]]
                if args and f["ptypes"][0] == "int" and r.random() < 0.15:
                    args[0] = ("bin", "/", ("int", 7), ("int", 0))
                call = ("assign", r.choice(["a", "b", "c"]), ("call", f["name"], args))
                hs = [(nm, [("print", g.mk(), [("errname",)])]) for nm in r.sample(["others", "divide_by_zero", "out_of_range", "oops"], r.randint(1, 2))]
                if "others" in [h[0] for h in hs]:
                    hs = [h for h in hs if h[0] != "others"] + [("others", [("print", g.mk(), [("errname",)])])]
                prog.append(("begin", [call, ("print", g.mk(), [("var", "a"), ("var", "b"), ("var", "c")])], hs))
            prog.append(tail)
            self.run_program(funcs, prog, "history/" + self.route, loopy=False)
            if self.res["counters"].get("worker_crashes", 0) > CRASH_BUDGET: return

    def twins(self):
        """metamorphic: the target call after a history H gives what it gives in a fresh context (no reference model involved)"""
        r = self.rnd
        n = 250 if self.desc["tier"] == "quick" else 5000
        for _ in range(n):
            g = ml.Gen(r, "functions")
            funcs, prog = g.program(nstmts=0)
            if not funcs: continue
            sc = {"ints": list(g.INTS), "bools": list(g.BOOLS), "strs": list(g.STRS), "tabs": list(g.TABS), "loopv": [], "iters": [], "active": [], "locked": []}
            init = prog[:10]
            def callstmt(f):
                return ("begin", [("assign", "c", ("call", f["name"], [g.arg_of(t, sc) for t in f["ptypes"]]))], [("others", [("print", g.mk(), [("errname",)])])])
            hist = [callstmt(r.choice(funcs)) for _ in range(r.randint(1, 8))]
            f = r.choice(funcs)
            target = [("print", 9999, [("str", "target")]), callstmt(f), ("print", g.mk(), [("var", "c")])]
            fdefs = "\n".join("\n".join(ml.rfunc(x, None)) for x in funcs) + "\n"
            t_init = "\n".join(ml.rstmts(init, 0, None)) + "\n"
            t_hist = "\n".join(ml.rstmts(hist, 0, None)) + "\n"
            t_target = "\n".join(ml.rstmts(target, 0, None)) + "\n"
            # the history may change a/b/c/...: the twin restores the variable state by re-running init before the target in both contexts
            ops = ["new A 0", "parse A P %s" % hx(fdefs + t_init + t_hist + t_init + t_target), "run A P 40000", "dump A",
                   "new B 0", "parse B Q %s" % hx(fdefs + t_init + t_target), "run B Q 40000", "dump B"]
            rr = self.probe.case(ops)
            self.res["evaluations"] += 1; bump(self.res, "twin_pairs")
            text = fdefs + t_init + t_hist + t_init + t_target
            if rr.crashed:
                bump(self.res, "worker_crashes")
                add_violation(self.res, "C08|crash:%s" % rr.sig, "twin program crashed: %s" % rr.sig, {"ops": ops, "program": text, "report": rr.report[-3000:]}); continue
            if rr.timeout:
                self.res["inconclusive"] += 1; continue
            rep = rr.replies
            if not rep[1].startswith("ok") or not rep[5].startswith("ok"):
                self.viol("generated-program-rejected", "twin program rejected: %s / %s" % (rep[1][:100], rep[5][:100]), ops, text); continue
            oa, ia, outa, _ = ld.impl_outcome(rep[2], self.E); ob, ib, outb, _ = ld.impl_outcome(rep[6], self.E)
            if ia or ib:
                self.res["inconclusive"] += 1; continue
            def after_target(out):
                m = ld.markers(out)
                return m[m.index("@@9999:target"):] if "@@9999:target" in m else None
            ta, tb = after_target(outa), after_target(outb)
            if oa[0] == "error" and ta is None:
                bump(self.res, "twin_history_failed_before_target"); continue
            if ta != tb or (ta is not None and oa != ob):
                self.viol("history-dependence", "call `%s` printed/returned %r (%s) after a history of %d calls but %r (%s) in a fresh context" % (ml.rstmts([target[1]], 0, None)[1].strip(), ta, oa, len(hist), tb, ob), ops, text); continue
            da = parse_dump(rep[3]); db = parse_dump(rep[7])
            for v in ("A", "B", "C", "S", "T", "W"):
                if da["syms"][v]["value"] != db["syms"][v]["value"]:
                    self.viol("history-dependence-vars", "caller variable %s is %s after history+target but %s in the fresh twin" % (v, da["syms"][v]["value"][:60], db["syms"][v]["value"][:60]), ops, text); break
            else:
                self.res["nontrivial"].add(case_hash(text))
                if len(self.res["samples"]) < 2:
                    self.res["samples"].append({"twin_target": ml.rstmts([target[1]], 0, None), "history_calls": len(hist), "after_target": ta})

    def ladder(self):
        """nested call depth: 1, 2, 254, 255 succeed; 256 raises the recursion-limit error instead of exhausting the stack"""
        src = ('function rec(n) return integer is begin if n <= 1 then return 1; end if; return 1 + rec(n - 1); end;\n'
               'function ma(n) return integer is begin if n <= 1 then return 1; end if; return 1 + mb(n - 1); end;\n'
               'function mb(n) return integer is begin if n <= 1 then return 1; end if; return 1 + ma(n - 1); end;\n')
        # mb is used by ma before its definition: define a first version so that the parser knows the name
        src = 'function mb(n) return integer is begin return 0; end;\n' + src
        for fn in ("rec", "ma"):
            for depth in (1, 2, 3, 100, 254, 255, 256, 257, 300, 1000):
                for rep_ in range(2):
                    text = src + "r = %s(%d); print \"@@1:\" r;\n" % (fn, depth) + ("r2 = %s(%d); print \"@@2:\" r2;\n" % (fn, 5) if rep_ else "")
                    ops = ["new A 0", "parse A P %s" % hx(text), "run A P 200000", "dump A", "resetstop A", "parse A Q %s" % hx("q = %s(3); print \"@@3:\" q;" % fn), "run A Q 1000", "dump A"]
                    rr = self.probe.case(ops)
                    self.res["evaluations"] += 1; bump(self.res, "ladder_rungs")
                    if rr.crashed:
                        bump(self.res, "worker_crashes")
                        add_violation(self.res, "C08|ladder|crash:%s" % rr.sig, "%s(%d) crashed: %s" % (fn, depth, rr.sig), {"ops": ops, "program": text, "report": rr.report[-3000:]}); continue
                    r2 = rr.replies
                    oc, intr, out, _ = ld.impl_outcome(r2[2], self.E)
                    m = ld.markers(out)
                    if depth <= 255:
                        exp = ["@@1:%d" % depth] + (["@@2:5"] if rep_ else [])
                        if oc[0] != "ok" or m != exp:
                            self.viol("ladder|depth<=255-failed", "%s(%d): outcome %s, printed %r, expected %r" % (fn, depth, oc, m, exp), ops, text); continue
                    else:
                        if oc != ("error", "RECURSION_LIMIT"):
                            self.viol("ladder|limit-not-raised", "%s(%d): outcome %s (printed %r), expected the recursion-limit error" % (fn, depth, oc, m), ops, text); continue
                    # afterwards the same context runs further calls correctly and no context was lost
                    oq, _, outq, _ = ld.impl_outcome(r2[6], self.E)
                    if oq[0] != "ok" or ld.markers(outq) != ["@@3:3"]:
                        self.viol("ladder|context-unusable-after", "after %s(%d): %s(3) gave %s %r" % (fn, depth, fn, oq, ld.markers(outq)), ops, text); continue
                    # conservation: contexts that are neither the root, a function's parse context nor a cached runtime context must not appear
                    # (the first definition of mb stays alive with the compiled program that holds it, hence 1 + nfn + 1)
                    d = parse_dump(r2[7])
                    live = int(d["kw"]["live"]); nfn = int(d["kw"]["nfn"]); cached = int(d["kw"]["cached"])
                    if live != 1 + nfn + 1 + cached:
                        self.viol("ladder|context-conservation", "after %s(%d): %d live contexts, expected 1 + %d + 1 (replaced definition) + %d cached" % (fn, depth, live, nfn, cached), ops, text); continue
                    self.res["nontrivial"].add(case_hash(text))


    def depth_histories(self):
        """a function reached at different recursion depths in turn: the limit must depend on the current nesting only"""
        r = self.rnd
        src = ('function rec(n) return integer is begin if n <= 1 then return 1; end if; return 1 + rec(n - 1); end;\n'
               'function g(n, m) return integer is begin if n <= 0 then return rec(m); end if; return g(n - 1, m); end;\n'
               'function ret0(a) return integer is begin if a > 0 then return; end if; return 7; end;\n')
        n = 60 if self.desc["tier"] == "quick" else 1200
        for _ in range(n):
            calls = []; exp = []
            for i in range(r.randint(2, 5)):
                k = r.random()
                if k < 0.4:
                    a = r.choice([1, 2, 50, 100, 200, 254, 255, 256]); calls.append("rec(%d)" % a); exp.append(a if a <= 255 else "LIMIT")
                elif k < 0.8:
                    nn = r.choice([0, 1, 50, 100, 200, 250]); m = r.choice([1, 3, 4, 5, 50, 100, 154, 155, 200])
                    calls.append("g(%d, %d)" % (nn, m)); exp.append(m if nn + 1 + m <= 255 else "LIMIT")
                else:
                    a = r.choice([0, 1]); calls.append("ret0(%d)" % a); exp.append(7 if a == 0 else None)
            text = src + "".join('begin x%d = %s; print "@@%d:" x%d; exception when others then print "@@%d:E"; end;\n' % (i, c, i, i, i) for i, c in enumerate(calls))
            ops = ["new A 0", "parse A P %s" % hx(text), "run A P 400000", "dump A"]
            rr = self.probe.case(ops)
            self.res["evaluations"] += 1; bump(self.res, "depth_histories")
            if rr.crashed:
                bump(self.res, "worker_crashes")
                add_violation(self.res, "C08|depth-history|crash:%s" % rr.sig, "%s crashed: %s" % (calls, rr.sig), {"ops": ops, "program": text, "report": rr.report[-3000:]}); continue
            oc, intr, out, _ = ld.impl_outcome(rr.replies[2], self.E)
            m = ld.markers(out)
            want = []; stop = None
            for i, e in enumerate(exp):
                if e == "LIMIT":
                    stop = i; break      # the recursion-limit error is not catchable: the program stops there
                want.append("@@%d:%s" % (i, "null" if e is None else e))
            if m != want or (stop is None and oc[0] != "ok") or (stop is not None and oc != ("error", "RECURSION_LIMIT")):
                self.viol("depth-history", "calls %s: printed %r outcome %s, expected %r%s" % (calls, m, oc, want, " then the recursion-limit error" if stop is not None else ""), ops, text); continue
            self.res["nontrivial"].add(case_hash(text))


FIXED_FUNCS = (
    'function g(a, b) return integer is begin return a * 10 + b; end;\n'
    'function inc(n) return integer is begin return n + 1; end;\n'
    # reads the error record outside any handler, and can fail inside its own handler
    'function eh(x) return integer is begin print "@@E:" isnull(error@1) " [" error@1 "]"; '
    'if x then begin raise oops; exception when oops then raise again; end; end if; return 1; end;\n'
    # nested protected blocks: the inner handler fails, the enclosing block of the same function recovers; the error record is read outside any handler
    'function eh2(x) return integer is begin print "@@F:" isnull(error@1) " [" error@1 "] [" error@2 "]"; '
    'if x then begin begin raise first_failure; exception when first_failure then raise second_failure; end; exception when second_failure then nop; end; end if; '
    'print "@@F:" isnull(error@1) " [" error@1 "]"; return 2; end;\n'
    # locals assigned on one path only, probed with isnull() and then read again
    'function lz(x) return integer is begin if x then v = 5; w = tab(1, 7); u = "set"; end if; '
    'if isnull(v) then print "@@L:v unset"; end if; if isnull(w) then print "@@L:w unset"; end if; if isnull(u) then print "@@L:u unset"; end if; '
    'print "@@L:" v " " u " " isnull(w); return 0; end;\n'
    # a handled error inside a loop inside the function, then a return from inside the handler
    'function lp(n) return integer is begin k = 0; for i in 1 to n loop begin k = k + 10 / (3 - i); exception when divide_by_zero then return k; end; end loop; return k + 1000; end;\n'
    # string/table parameters changed in place
    'function ap(t, s) return integer is begin t.concat(1); s.concat("!"); print "@@A:" t.count() " " s; return t.count(); end;\n')
FIXED_FUNCS += ('function dbl(a) return integer is begin return a * 2; end;\n'
                'function tag(s) return string is begin return "<" + s + ">"; end;\n'
                'function fib(n) return integer is begin if n < 2 then return n; end if; return fib(n - 1) + fib(n - 2); end;\n'
                'function tb(n) return table is begin return tab(n, n); end;\n')
# calls whose value follows from the definitions alone (several results of one function alive in one expression, double recursion)
FIXED_EXPECT = {"c = g(1, g(2, 3));": "33", "c = inc(inc(inc(0)));": "3", "c = g(inc(1), g(inc(2), inc(3)));": "54", "c = dbl(1) + dbl(2);": "6", "c = dbl(5) - dbl(1);": "8",
                "c = fib(10);": "55", "c = strlen(tag(\"a\") + tag(\"bc\"));": "7", "c = dbl(dbl(1) + dbl(2)) * dbl(3);": "72", "c = tb(2).count() + tb(3).count() * 10;": "32",
                "c = g(dbl(1), dbl(2)) + g(dbl(3), dbl(4));": "92", "c = lp(2);": "1015", "c = lp(5);": "15"}
FIXED_CALLS = ["c = dbl(1) + dbl(2);", "c = dbl(5) - dbl(1);", "c = fib(10);", "c = strlen(tag(\"a\") + tag(\"bc\"));", "c = dbl(dbl(1) + dbl(2)) * dbl(3);",
               "c = tb(2).count() + tb(3).count() * 10;", "c = g(dbl(1), dbl(2)) + g(dbl(3), dbl(4));", "c = g(1, g(2, 3));", "c = inc(inc(inc(0)));", "c = g(inc(1), g(inc(2), inc(3)));", "c = eh(false);", "c = eh(true);", "c = lz(true);", "c = lz(false);",
               "c = eh2(false);", "c = eh2(true);", "c = lp(2);", "c = lp(5);", "c = ap(tab(1, 0), \"x\");", "c = g(1, eh(true));", "c = g(lz(false), lz(true));", "c = inc(10 / 0);", "c = g(1, g(2, 10 / 0));"]


def _fixed_twins(self):
    """hand-written functions aimed at the state a call could inherit from earlier calls (cached runtime contexts picked while arguments are
    being evaluated, the error record, locals, control state), every history of one or two calls x every target call, twin oracle"""
    def guarded(c): return "begin %s exception when others then print \"@@X:\" error@1; end;" % c
    hists = [[a] for a in FIXED_CALLS] + [[a, b] for a in FIXED_CALLS for b in FIXED_CALLS]
    k, n = self.desc["k"], self.desc["n"]
    idx = 0
    for h in hists:
        for target in FIXED_CALLS:
            idx += 1
            if idx % n != k: continue
            if self.desc["tier"] == "quick" and len(h) == 2 and (idx // n) % 3: continue
            t_target = 'c = 0; print "@@9999:target"; ' + guarded(target) + ' print "@@R:" c;\n'
            text = FIXED_FUNCS + "".join(guarded(c) + "\n" for c in h) + t_target
            ops = ["new A 0", "parse A P %s" % hx(text), "run A P 40000", "dump A", "new B 0", "parse B Q %s" % hx(FIXED_FUNCS + t_target), "run B Q 40000", "dump B"]
            rr = self.probe.case(ops)
            self.res["evaluations"] += 1; bump(self.res, "fixed_twin_pairs")
            if rr.crashed:
                bump(self.res, "worker_crashes")
                add_violation(self.res, "C08|crash:%s" % rr.sig, "fixed twin crashed: %s" % rr.sig, {"ops": ops, "program": text, "report": rr.report[-3000:]}); continue
            if rr.timeout:
                self.res["inconclusive"] += 1; continue
            rep = rr.replies
            if not rep[1].startswith("ok") or not rep[5].startswith("ok"):
                raise HarnessFailure("C08 fixed twin rejected by the parser: %s / %s" % (rep[1][:200], rep[5][:200]))
            oa, ia, outa, _ = ld.impl_outcome(rep[2], self.E); ob, ib, outb, _ = ld.impl_outcome(rep[6], self.E)
            def after(out):
                m = ld.markers(out)
                return m[m.index("@@9999:target"):] if "@@9999:target" in m else None
            ta, tb = after(outa), after(outb)
            exp = FIXED_EXPECT.get(target)
            if exp is not None and tb is not None and tb[-1:] != ["@@R:" + exp]:
                self.viol("result|fixed", "`%s` gives %r in a fresh context; its definitions give %s" % (target, tb[-1:], exp), ops, text); continue
            if ta != tb or oa != ob:
                self.viol("history-dependence|fixed", "`%s` printed %r (%s) after the calls %r but %r (%s) in a fresh context" % (target, ta, oa, h, tb, ob), ops, text); continue
            da = parse_dump(rep[3]); db = parse_dump(rep[7])
            live = int(da["kw"]["live"]); nfn = int(da["kw"]["nfn"]); cached = int(da["kw"]["cached"])
            if live != 1 + nfn + cached:      # counted when context A was dumped (B did not exist yet)
                self.viol("context-conservation|fixed", "%d live contexts after %r + `%s` (expected 1 root + %d functions + %d cached)" % (live, h, target, nfn, cached), ops, text); continue
            self.res["nontrivial"].add(case_hash(text))


Sh.fixed_twins = _fixed_twins


def plan(tier, seed):
    sh = [{"kind": "ladder", "k": 0, "n": 1, "seed": seed, "tier": tier}, {"kind": "depth_histories", "k": 0, "n": 1, "seed": seed, "tier": tier}]
    for k in range(3): sh.append({"kind": "fixed_twins", "k": k, "n": 3, "seed": seed, "tier": tier})
    for k in range(7): sh.append({"kind": "histories", "k": k, "n": 7, "seed": seed, "tier": tier, "route": "cpp" if k % 3 else "capi"})
    for k in range(6): sh.append({"kind": "twins", "k": k, "n": 6, "seed": seed, "tier": tier})
    return sh


def run_shard(desc):
    s = Sh(desc)
    try:
        getattr(s, desc["kind"])()
    finally:
        s.probe.close()
    return s.res


def replay(wit):
    print(wit["witness"].get("program", ""))
    r = generic_replay(wit)
    return 1 if r.crashed else 0
