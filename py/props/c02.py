"""C02 — the type fixed at compile time is the type produced at run time.

(a) static type (taken under parsingBegin, as the parser's own checks see it) vs. the type of the evaluated value over
    the construct matrix with operands of defined static type;
(b) twin: whole program vs. the same program fed one top-level statement at a time (compile, run, compile, run ...);
(c) '$' variables and for/forall iterators keep their major type while the constraint is active: step-hook monitor
    observing every constrained symbol at every statement boundary, driven by programs (and host stores) that try
    to change the type."""
import random, re
import os
from vlib import *
import model_lang as ml
import lang_diff as ld
import corpus
from props.c01 import value_pool, BUILTINS, BINOPS, UNOPS

PROPERTY = "C02"
LEVEL = "exploration"
RULE = ("one evaluation = (a) one expression with a non-opaque static type evaluated and its run-time type compared (major, dimension, tuple "
        "declaration), or (b) one program run as a whole and statement-at-a-time in a twin context and compared (acceptance, errors, output), or "
        "(c) one type-changing attempt on a constrained symbol observed by the statement-boundary monitor; non-trivial = (a) the expression "
        "evaluated to a value (typed nulls count), (b) the batch run completed without error and printed something, (c) the constraint was active "
        "when the attempt executed; distinct = hashes of (form, text, operand values)")
ASSUMPTIONS = ["user functions lie about their declared types by design (manual: not enforced): they are not used as typed operands", "gcc ASan/UBSan runtimes"]


def static_of(reply):
    head, pos, kw = rfields(reply)
    return kw.get("type")


def type_mismatch(static, valstr):
    """static: type string from the harness (e.g. i0, n1, r0#5{i0,s0}, u0). returns None or description"""
    m = re.match(r"([a-z])(\d+)(?:#(\d+))?(\{[^}]*\})?$", static)
    if not m: return None
    maj, lvl, minor, decl = m.group(1), int(m.group(2)), m.group(3), m.group(4)
    if maj == "u" and lvl == 0: return None                     # opaque
    v = parse_value(valstr)
    vm, vl = vtype(v)
    if maj == "u":                                               # table of undefined: only the dimension is defined
        return None if vl == lvl else "static dimension %d, value dimension %d" % (lvl, vl)
    if v[0] == "null" and vm == "u":
        return "static %s, value is the untyped null" % static
    if (vm, vl) != (maj, lvl):
        return "static %s, value has type %s%d" % (static, vm, vl)
    if maj == "r" and decl and decl != "{}" and minor:
        want = tuple((t[0], int(t[1:].split("#")[0]), 0) for t in decl.strip("{}").split(",") if t)
        got = None
        if v[0] == "r": got = tuple((d[0], d[1], 0) for d in v[1])
        elif v[0] == "t" and v[2] is not None: got = tuple((d[0], d[1], 0) for d in v[2])
        if got is not None and got != want:
            return "static tuple structure %s, value structure %s" % (decl, got)
    return None


class Sh:
    def __init__(self, desc):
        self.desc = desc; self.res = new_result(); self.probe = Probe("asan", timeout=30)
        self.E = errnos(self.probe)
        self.rnd = random.Random("%s-c02-%s-%s" % (desc["seed"], desc["kind"], desc["k"]))
        self.pool = value_pool(); self.pmap = {n: (e, b) for n, e, b in self.pool}

    def viol(self, cls, what, wit):
        add_violation(self.res, "C02|" + cls, what, wit)

    # ---------------------------------------------------------------- (a)
    def literal_forms(self):
        return ["null", "true", "false", "0", "1", "255", "9223372036854775807", "2.5", "0.0", "1e300", '""', '"abc"', '"12"', "bool()", "int()", "num()", "str()", "raw()", "tup()", "tab()",
                "raw(2, 65)", 'raw("12")', "tup(1, \"a\")", "tup(int(), str())", "tab(2, 1)", "tab(0, 1.5)", 'tab(1, "a")', "tab(1, tab(1, 1))", 'tab(1, tup(1, "a"))', "ii", "2 + 3 * ii", "pi",
                "tab(2, int())", "tab(1, raw(1, 1))"]

    def matrix(self):
        d = self.desc; r = self.rnd
        names = [n for n, _, _ in self.pool]
        lits = self.literal_forms()
        def enc_cls(e):
            if e.startswith("Z"):
                t = e[1]
                return ("t" if (len(e) > 2 and e[2] != "0") else t) + "-null"
            return e[0]
        def lit_cls(l):
            table = {"null": "u-null", "true": "b", "false": "b", "bool()": "b-null", "int()": "i-null", "num()": "n-null", "str()": "s-null", "raw()": "x-null", "tup()": "r-null", "tab()": "t-null",
                     "ii": "m", "2 + 3 * ii": "m", "pi": "n"}
            if l in table: return table[l]
            if l.startswith("tab("): return "t"
            if l.startswith("tup("): return "r"
            if l.startswith("raw("): return "x"
            if l.startswith('"'): return "s"
            return "n" if ("." in l or "e" in l) else "i"
        operands = [("v_" + n, [n], enc_cls(self.pmap[n][0])) for n in names] + [(l, [], lit_cls(l)) for l in lits]
        units = []
        k, n = d["k"], d["n"]
        quick = d["tier"] == "quick"
        idx = [0]
        def take():
            idx[0] += 1
            return idx[0] % n == k
        def mkunit(text, used, cons="?", ocls=()):
            ops = ["new A 0"]
            for nm in used:
                ops.append("set A %s %s" % (hx(("v_" + nm).upper()), self.pmap[nm][0]))
            ops += ["pexpr A E %s" % hx(text), "eval A E 20000", "eval A E 20000"]
            nset = len(ops) - 3
            def check(rep, text=text, used=used, ops=ops):
                self.res["evaluations"] += 1
                pr = rep[nset]
                if not pr.startswith("ok"):
                    bump(self.res, "rejected_at_compile_time"); return
                st = static_of(pr)
                for ev in rep[nset + 1:nset + 3]:
                    if not ev.startswith("val"):
                        bump(self.res, "runtime_error_or_other"); return
                    val = rfields(ev)[1][0]
                    why = type_mismatch(st, val)
                    if why:
                        vv = parse_value(val); vt = vtype(vv)
                        self.viol("static-vs-runtime|%s|%s|%s->%s%d" % (cons, ",".join(ocls), re.sub(r"#\d+|\{.*\}", "", st), vt[0], vt[1]), "`%s` (operands %s): %s (value %s)" % (text, {u: self.pmap[u][0][:30] for u in used}, why, val[:60]),
                                  {"ops": ops}); return
                self.res["nontrivial"].add(case_hash(["a", text, used]))
                if st and st[0] != "u": bump(self.res, "typed_expressions_checked")
                else: bump(self.res, "opaque_static_type")
                if len(self.res["samples"]) < 3 and st and st[0] != "u":
                    self.res["samples"].append({"expr": text, "static": st, "value": rep[nset + 1][:50]})
            return Unit(ops, check, text)
        for (a, ua, ca) in operands:
            for op in UNOPS:
                if take(): units.append(mkunit("%s %s" % (op, a), ua, "unary" + op, (ca,)))
            for b in BUILTINS:
                if take(): units.append(mkunit("%s(%s)" % (b, a), ua, b, (ca,)))
            for mem in ("count()", "at(0)", "delete(0)"):
                if take(): units.append(mkunit("%s.%s" % (a, mem), ua, "." + mem.split("(")[0], (ca,)))
            for rk in (1, 2):
                if take(): units.append(mkunit("%s@%d" % (a, rk), ua, "@", (ca,)))
        frac = 0.1 if quick else 1.0
        for (a, ua, ca) in operands:
            for (b, ub, cb) in operands:
                if r.random() > frac:
                    idx[0] += 1; continue
                if not take(): continue
                for op in (r.sample(BINOPS, 5) if quick else BINOPS):
                    units.append(mkunit("%s %s %s" % (a, op, b), ua + ub, op, (ca, cb)))
                for f in (r.sample(BUILTINS, 10) if quick else BUILTINS):
                    units.append(mkunit("%s(%s, %s)" % (f, a, b), ua + ub, f, (ca, cb)))
                for mem in ("at", "concat", "delete"):
                    units.append(mkunit("%s.%s(%s)" % (a, mem, b), ua + ub, "." + mem, (ca, cb)))
                units.append(mkunit("%s.put(0, %s)" % (a, b), ua + ub, ".put", (ca, cb))); units.append(mkunit("%s.insert(0, %s)" % (a, b), ua + ub, ".insert", (ca, cb)))
                units.append(mkunit("%s.set@1(%s)" % (a, b), ua + ub, ".set@", (ca, cb)))
        r.shuffle(units)
        def on_crash(u, rr):
            self.res["evaluations"] += 1
            if rr.sig and ("requested" in rr.sig or "allocation-size-too-big" in rr.sig or "bad_alloc" in rr.sig):
                self.res["out_of_domain"] += 1; return
            add_violation(self.res, "C02|crash:%s" % rr.sig, "`%s` crashed: %s" % (u.desc, rr.sig), {"ops": u.ops, "report": rr.report[-3000:]})
        run_units(self.probe, [], units, self.res, on_crash, chunk=60)

    # ---------------------------------------------------------------- (b)
    def twin_case(self, chunks, label, must_accept=False):
        whole = "\n".join(chunks) + "\n"
        ops = ["new A 0", "parse A P %s" % hx(whole), "run A P 20000", "dump A nofn", "new B 0"]
        for i, c in enumerate(chunks):
            ops += ["parse B S %s" % hx(c + "\n"), "run B S 20000"]
        ops += ["dump B nofn"]
        r = self.probe.case(ops)
        self.res["evaluations"] += 1; bump(self.res, "twin_programs")
        wit = {"ops": ops, "program": whole}
        if r.timeout:
            self.res["inconclusive"] += 1; return
        if r.crashed:
            bump(self.res, "worker_crashes")
            add_violation(self.res, "C02|crash:%s" % r.sig, "%s twin crashed: %s" % (label, r.sig), dict(wit, report=r.report[-3000:])); return
        rep = r.replies
        if not rep[1].startswith("ok"):
            if must_accept and all(x.startswith("ok") for x in rep[5:5 + 2 * len(chunks)]):
                self.viol("opaque-reassignment|unit-rejected", "%s: the unit is refused at compile time (%s) although every statement is accepted and runs when fed one at a time: `%s`" % (label, rep[1][:120], whole[:200].replace("\n", " ")), wit)
            bump(self.res, "batch_rejected"); return
        oc, intr, out, steps = ld.impl_outcome(rep[2], self.E)
        if intr:
            self.res["inconclusive"] += 1; return
        if oc[0] == "error":
            bump(self.res, "batch_runtime_error"); return         # the consequence is stated for programs that run without error
        outs = b""; k = 5
        for i, c in enumerate(chunks):
            pr, rn = rep[k], rep[k + 1]; k += 2
            if not pr.startswith("ok"):
                self.viol("stepwise-rejected", "%s: statement #%d `%s` is rejected when compiled after running the previous ones (%s) although the whole program compiles and runs" % (label, i, c[:80].replace("\n", " "), pr[:120]), wit); return
            o2, i2, out2, _ = ld.impl_outcome(rn, self.E)
            outs += out2
            if o2[0] == "error":
                self.viol("stepwise-runtime-error", "%s: statement #%d `%s` fails with %s when run stepwise; the whole program runs without error" % (label, i, c[:80].replace("\n", " "), o2[1]), wit); return
            if o2[0] == "returned":
                break
        if outs != out:
            self.viol("stepwise-output", "%s: output differs: whole %r, stepwise %r" % (label, out[:120], outs[:120]), wit); return
        # variable types never contradict what was compiled: after the run every symbol with a defined type holds a value of that type
        for which, dumprep in (("whole program", rep[3]), ("stepwise", rep[-1])):
            if not dumprep.startswith("dump"): continue
            for name, sy in parse_dump(dumprep)["syms"].items():
                why = type_mismatch(sy["type"], sy["value"])
                if why:
                    self.viol("symbol-vs-value|%s" % sy["type"][0], "%s (%s): variable %s: %s (value %s)" % (label, which, name, why, sy["value"][:60]), wit); return
            bump(self.res, "symbol_tables_checked")
        if out:
            self.res["nontrivial"].add(case_hash(["b", whole]))
        if len(self.res["samples"]) < 2:
            self.res["samples"].append({"twin_program": whole[:400], "statements": len(chunks), "output": out[:80].decode("latin-1")})

    def twins(self):
        r = self.rnd
        n = 500 if self.desc["tier"] == "quick" else 10000
        for i in range(n):
            g = ml.Gen(r, r.choice(["loops", "errors", "functions"]))
            funcs, prog = g.program()
            chunks = ml.render(funcs, prog, r, toplevel_split=True)
            if any(c.startswith("function") and re.search(r"\breturn\s*;", c) for c in chunks):
                # a function declared `return integer` that ends with a bare `return;` yields an untyped null: the manual says the declared
                # return type "imposes no constraints at runtime", so the compile-time type of its calls is not a promise (outside the property)
                bump(self.res, "generated_with_bare_return_skipped"); continue
            self.twin_case(chunks, "generated")
            if self.res["counters"].get("worker_crashes", 0) > CRASH_BUDGET: return
        # a variable re-assigned from an opaque expression is opaque for the rest of the unit (manual: opaque values are checked at run time):
        # such units compile, run, and behave as when fed one statement at a time
        if self.desc["k"] == 0:
            idf = "function idf(a) return undefined is begin return a; end;"
            for body in ['x = 1; x = idf("s"); print x.count();', 'x = 1; x = idf(tab(2, 5)); print x.count(); x.concat(3); print x.at(2);', 'x = "s"; x = idf(7); print x + 1;',
                         'x = 2.5; x = idf(tup(1, "a")); print x@2;', 'x = true; x = idf(raw(2, 65)); print x.count();', 'x = 1; x = null; x = idf("q"); print x + "z";',
                         'o = tab(); o = idf(tab(1, "e")); x = 5; x = o.at(0); print x.count();', 'x = tab(1, 1); x = idf(4); print x * 2;',
                         'x = 1; if true then x = idf("branch"); end if; print strlen(x);', 'x = 1; for i in 1 to 2 loop x = idf("loop"); end loop; print x.count();',
                         'r = tup(1, 2); r = idf(tup("a", "b")); print r@1 + "c";', 'x = 1; y = x; x = idf("s"); y = x; print y.count();']:
                stmts = [idf] + [c.strip() + ";" for c in body.split(";") if c.strip()] if " then " not in body and " loop " not in body else [idf, body]
                self.twin_case(stmts, "opaque-reassignment", must_accept=True)
                bump(self.res, "opaque_reassignment_units")
        # type-changing straight-line programs: every variable changes type several times
        vals = ["1", "2.5", '"s"', "true", "tab(2, 1)", 'tab(1, "a")', 'tup(1, "a")', "tup(2.5)", "raw(2, 65)", "null", "int()", "str()", "tab(1, tab(1, 1))", "x + 1", "str(x)", "tab(2, x)", "y", "tup(y, 1)",
                'tab(2, tup(1, "a"))', 'tup(1, "a")', 'tup(2.5)', 'tab(2, tup(1, "a"))']
        vals += ["o.at(0)", "idf(\"s\")", "idf(tab(1, 1))", "o.at(1)", "idf(2.5)"]
        USES = {'tup(1, "a")': ['print {v}@1 " " {v}@2;', '{v}.set@1(5);', 'w = {v}@2 + "z"; print w;', '{v}.set@2("k"); print {v}@2;'],
                "tup(2.5)": ["print {v}@1;", "{v}.set@1(0.5);"],
                'tab(2, tup(1, "a"))': ["print {v}.at(0)@1;", "forall e in {v} loop print e@2; end loop;", '{v}.put(1, tup(7, "q")); print {v}.at(1)@2;'],
                "tab(2, 1)": ["print {v}.at(1) + 1;", "{v}.put(0, 5);"], 'tab(1, "a")': ['print {v}.at(0) + "z";'],
                "tab(1, tab(1, 1))": ["print {v}.at(0).at(0) + 1;", "{v}.put(0, tab(2, 4));"], "tup(y, 1)": ["print {v}@2 + 1;"]}
        for i in range(n // 2):
            st = ["function idf(a) return undefined is begin return a; end;", "o = tab(1, \"s\"); o.concat(\"t\");", "x = 1;", "y = \"q\";"]
            for _ in range(r.randint(2, 8)):
                v = r.choice(["x", "y", "z"]); e = r.choice(vals)
                if v == "z" and ("x" in e or "y" in e) and r.random() < 0.5: e = "1"
                st.append("%s = %s;" % (v, e))
                # statements that need the new type's structure (tuple declaration, table dimension) at *compile* time
                if e in USES and r.random() < 0.6: st.append(r.choice(USES[e]).format(v=v))
                if r.random() < 0.5: st.append("print typeof(%s);" % r.choice(["x", "y"]))
                if r.random() < 0.3: st.append("if isnull(%s) then print \"n\"; else %s = %s; end if;" % (v, v, r.choice(vals[:9])))
            self.twin_case(st, "retyping")
        # a variable retyped several times inside a block that is compiled but never executed, ending with its original type, then used
        kinds = {"i": (["1", "7"], "b = x + 1;"), "s": (['"s"', '"q"'], 'b = x + "z";'), "t": (["tab(2, 1)", "tab(1, 5)"], "b = x.count();"), "r": (['tup(1, "a")', 'tup(2, "b")'], "b = x@1;"),
                 "b": (["true", "false"], "b = not x;"), "n": (["2.5", "0.5"], "b = x * 2.0;")}
        allv = [v for vs, _ in kinds.values() for v in vs]
        for i in range(n // 2):
            t0 = r.choice(list(kinds)); vs, use = kinds[t0]
            seq = [r.choice(allv) for _ in range(r.randint(1, 4))] + [r.choice(vs)]
            blk = r.choice(["if false then %s end if;", "while false loop %s end loop;", "for q in 1 to 0 asc loop %s end loop;", "if isnull(x) then %s end if;"])
            st = ["x = %s;" % vs[0], blk % " ".join("x = %s;" % v for v in seq), use, "print typeof(x) \" \" typeof(b);"]
            if r.random() < 0.5: st.insert(2, "y = x;")
            self.twin_case(st, "dead-retyping")

    def readers(self):
        """read/readln/input refill a typed variable from standard input: the variable keeps the type it was compiled with (observed through
        typeof() and through a type-specific operation), run by the real bloc binary because only a process has a standard input"""
        import subprocess, tempfile, shutil
        bdir = build("asan"); blocbin = os.path.join(bdir, "apps", "bloc")
        env = dict(os.environ); env["ASAN_OPTIONS"] = ASAN_OPTS; env["UBSAN_OPTIONS"] = UBSAN_OPTS; env["LD_LIBRARY_PATH"] = os.path.join(bdir, "libonly")
        work = tempfile.mkdtemp(prefix="c02rd_")
        data = b"0123456789abcdefghijklmnopqrstuvwxyzABCDEFGHIJKLMNOPQRSTUVWXYZ\nsecond line of the input\nthird\n" * 3
        try:
            for decl, kind, grow in (("b:bytes;", "bytes", "b.concat(raw(2, 66));"), ("b = raw();", "bytes", "b.concat(raw(2, 66));"), ('b = "";', "string", 'b.concat("BB");'), ("b:string;", "string", 'b.concat("BB");')):
                for size in (1, 2, 8, 31, 32, 33, 64, 100, 1000):
                    for call in ("read(b, %d)" % size, "readln(b)", "read(b)"):
                        text = '%s n = %s; print typeof(b); %s print typeof(b) " " b.count(); m = %s; print typeof(b); %s print b.count() > 1;\n' % (decl, call, grow, call, grow)
                        fn = os.path.join(work, "p.bloc"); open(fn, "w").write(text)
                        try:
                            p = subprocess.run([blocbin, fn], input=data, stdout=subprocess.PIPE, stderr=subprocess.PIPE, env=env, cwd=work, timeout=60)
                        except subprocess.TimeoutExpired:
                            self.res["inconclusive"] += 1; continue
                        self.res["evaluations"] += 1; bump(self.res, "reader_programs")
                        out = p.stdout.decode("latin-1").split("\n"); err = p.stderr.decode("latin-1")
                        wit = {"ops": [], "program": text, "stdin": data[:80].decode()}
                        if "Sanitizer" in err or "runtime error:" in err or p.returncode not in (0, 1):
                            add_violation(self.res, "C02|crash:%s" % (sig_of_report(err) or p.returncode), "reader program crashed: %s" % text[:100], dict(wit, report=err[-2000:])); continue
                        types = [l.split(" ")[0] for l in out if l.split(" ")[0] in ("bytes", "string", "undefined", "integer", "boolean", "table", "tuple", "decimal")]
                        if p.returncode != 0 or any(t != kind for t in types) or len(types) < 3:
                            self.viol("reader|%s|%s" % (kind, call.split("(")[0]), "`%s`: a variable compiled as %s shows types %r / exit %d %s" % (text.strip()[:160], kind, types, p.returncode, err.strip()[:100]), wit); continue
                        self.res["nontrivial"].add(case_hash(["rd", text]))
        finally:
            shutil.rmtree(work, ignore_errors=True)

    # ---------------------------------------------------------------- (c)
    def constraints(self):
        r = self.rnd
        vals = [("1", "i"), ("2.5", "n"), ('"s"', "s"), ("true", "b"), ("tab(2, 1)", "t"), ('tup(1, "a")', "r"), ("raw(1, 1)", "x"), ("null", "u"), ("int()", "i"), ("str()", "s"),
                ("idf(1)", "i"), ('idf("s")', "s"), ("idf(2.5)", "n"), ("idf(tab(1, 1))", "t"), ("idf(null)", "u")]
        pre = "function idf(a) return undefined is begin return a; end;\n"
        progs = []
        for v0, t0 in vals[:7]:
            for v1, t1 in vals:
                progs.append(("$x = %s; print \"@@1\"; $x = %s; print \"@@2\";" % (v0, v1), "$X", t0))
                progs.append(("$x = %s; for k in 1 to 2 loop $x = %s; end loop; print \"@@2\";" % (v0, v1), "$X", t0))
                progs.append(("$x = %s; begin $x = %s; exception when others then print \"h\"; end; print \"@@2\";" % (v0, v1), "$X", t0))
        for v1, t1 in vals:
            progs.append(("for i in 1 to 3 loop i = %s; print \"@@1\"; end loop;" % v1, "I", "i"))
            progs.append(("t = tab(2, 1); forall e in t loop e = %s; print \"@@1\"; end loop;" % v1, "E", "i"))
            progs.append(("t = tab(2, \"a\"); forall e in t loop e = %s; print \"@@1\"; end loop;" % v1, "E", "s"))
            progs.append(("for i in 1 to 2 loop for j in 1 to 2 loop i = %s; end loop; end loop;" % v1, "I", "i"))
        for v1, t1 in vals:
            # a '$' variable used as for iterator keeps its constraint after the loop; an outer iterator reused by a nested loop keeps it inside the outer loop
            progs.append(("$k = 1; for $k in 1 to 3 loop nop; end loop; $k = %s; print \"@@2\";" % v1, "$K", "i"))
            progs.append(("for i in 1 to 2 loop for i in 1 to 2 loop nop; end loop; i = %s; print \"@@1\"; end loop;" % v1, "I", "i"))
            progs.append(("$t = tab(2, 1); forall $e in $t loop nop; end loop; $t = %s; print \"@@2\";" % v1, "$T", "t"))
            progs.append(("$k = 1; begin for $k in 1 to 3 loop raise oops; end loop; exception when oops then nop; end; $k = %s; print \"@@2\";" % v1, "$K", "i"))
        k, n = self.desc["k"], self.desc["n"]
        for idx, (text, sym, t0) in enumerate(progs):
            if idx % n != k: continue
            for route in ("batch", "stepwise"):
                ops = ["new A 0", "mon safety on", "parse A PRE %s" % hx(pre), "run A PRE 100"]
                if route == "batch":
                    ops += ["parse A P %s" % hx(text), "run A P 5000", "dump A nofn"]
                else:
                    ops += ["istmt A %s 5000" % hx(text), "resetstop A", "dump A nofn"]
                rr = self.probe.case(ops)
                self.res["evaluations"] += 1; bump(self.res, "constraint_attempts")
                wit = {"ops": ops, "program": text}
                if rr.crashed:
                    add_violation(self.res, "C02|crash:%s" % rr.sig, "`%s` crashed: %s" % (text, rr.sig), dict(wit, report=rr.report[-3000:])); continue
                rep = rr.replies
                mons = [unhx(x).decode() for rp in rep for x in ([rfields(rp)[2].get("mon")] if isinstance(rfields(rp)[2].get("mon"), str) else (rfields(rp)[2].get("mon") or []))]
                if mons:
                    self.viol("constraint|type-changed", "`%s` (%s): %s" % (text, route, "; ".join(mons)), wit); continue
                self.res["nontrivial"].add(case_hash(["c", text, route]))
        # structure: whatever a statement that writes into a container does (accepted or refused), expressions over the container
        # still evaluate to the type the compiler gives them (tuple structure, table dimension)
        writers = ['t = tab(2, tup(1, "a")); forall e in t loop e = tup("x", 2.5, true); end loop;',
                   't = tab(2, tup(1, "a")); forall e in t loop e = tup(2, "b", 3); end loop;',
                   't = tab(2, tup(1, "a")); forall e in t loop e = tup("x", 2); end loop;',
                   't = tab(2, tup(1, "a")); forall e in t loop e = idf(tup("x", 2.5)); end loop;',
                   't = tab(2, tup(1, "a")); t.put(0, idf(tup("x", 2.5)));',
                   't = tab(2, tup(1, "a")); t.concat(idf(tup(2.5)));',
                   't = tab(2, tup(1, "a")); t.at(0).set@1(idf("s"));',
                   't = tab(2, tab(2, 1)); forall e in t loop e = tab(1, tab(1, 1)); end loop;',
                   't = tab(2, tab(2, 1)); forall e in t loop e = tab(1, "s"); end loop;',
                   't = tab(2, tab(2, 1)); forall e in t loop e = idf(tab(1, 2.5)); end loop;',
                   't = tab(2, tab(2, 1)); t.put(1, idf(3.5));',
                   't = tab(2, 1); forall e in t loop e = idf(tup(1)); end loop;',
                   't = tab(1, "a"); t.concat(null); t.concat(idf(null));', 't = tab(1, true); t.concat(null); t.put(0, null);', 't = tab(1, raw(1, 1)); t.concat(null);',
                   't = tab(1, "a"); t.insert(0, null); t.put(1, idf(null));', 't = tab(1, tab(1, "a")); t.concat(null); t.at(0).concat(null);',
                   'r = tup(1, "a"); r.set@1(idf("s")); t = tab(1, r);',
                   'r = tup(1, "a"); r.set@2(idf(tup(1))); t = tab(1, r);']
        readers = ["t", "t.at(0)", "t.at(1)", "t.at(2)", "t.at(0).at(1)", "t.at(0)@1", "t.at(0)@2", "t.at(1)@1", "t.at(0).at(0)", "t.at(1).at(0)", "t.at(0).count()", "r", "r@1", "r@2"]
        for wi, wtext in enumerate(writers):
            if wi % n != k: continue
            for route in ("batch", "stepwise"):
                for rd in readers:
                    ops = ["new A 0", "parse A PRE %s" % hx(pre), "run A PRE 100"]
                    ops += (["parse A P %s" % hx(wtext), "run A P 5000"] if route == "batch" else ["istmt A %s 5000" % hx(wtext), "nopreply"])
                    ops += ["resetstop A", "pexpr A E %s" % hx(rd), "eval A E 1000"]
                    ops = [o for o in ops if o != "nopreply"]
                    rr = self.probe.case(ops)
                    self.res["evaluations"] += 1; bump(self.res, "structure_reads")
                    wit = {"ops": ops, "program": wtext, "reader": rd}
                    if rr.crashed:
                        add_violation(self.res, "C02|crash:%s" % rr.sig, "`%s` then `%s` crashed: %s" % (wtext, rd, rr.sig), dict(wit, report=rr.report[-3000:])); continue
                    rep = rr.replies
                    pr, ev = rep[-2], rep[-1]
                    if not pr.startswith("ok") or not ev.startswith("val"):
                        bump(self.res, "structure_reader_not_applicable"); continue
                    st = static_of(pr); val = rfields(ev)[1][0]
                    why = type_mismatch(st, val)
                    if why:
                        self.viol("structure|%s" % re.sub(r"[^a-z@.]", "", rd), "after `%s` (%s), `%s`: %s (value %s)" % (wtext, route, rd, why, val[:60]), wit); continue
                    self.res["nontrivial"].add(case_hash(["s", wtext, rd, route]))
        # host stores between statements: a constrained symbol refuses a value of another major type
        for v0, t0 in vals[:7]:
            for enc, t1 in [("i:5", "i"), ("n:4004000000000000", "n"), ("s:61", "s"), ("b:1", "b"), ("ti1[i:1]", "t"), ("Zu0", "u"), ("Zs0", "s")]:
                ops = ["new A 0", "parse A P %s" % hx("$x = %s;" % v0), "run A P 100", "get A 2458", "set A 2458 %s" % enc, "get A 2458"]
                rr = self.probe.case(ops)
                self.res["evaluations"] += 1; bump(self.res, "host_store_attempts")
                if rr.crashed:
                    add_violation(self.res, "C02|crash:%s" % rr.sig, "host store crashed: %s" % rr.sig, {"ops": ops, "report": rr.report[-3000:]}); continue
                rep = rr.replies
                before = parse_value(rep[3].split()[1]); after = parse_value(rep[5].split()[1])
                b0, a0 = vtype(before), vtype(after)
                if b0[0] != "u" and a0[0] != "u" and (b0[0] != a0[0] or (b0[1] > 0) != (a0[1] > 0)):
                    self.viol("constraint|host-store-changed-type", "$x = %s then host store of %s: type went from %s to %s (%s)" % (v0, enc, b0, a0, rep[4][:60]), {"ops": ops})
                else:
                    self.res["nontrivial"].add(case_hash(["c-host", v0, enc]))


def plan(tier, seed):
    sh = [{"kind": "matrix", "k": k, "n": 8, "seed": seed, "tier": tier} for k in range(8)]
    sh += [{"kind": "twins", "k": k, "n": 5, "seed": seed, "tier": tier} for k in range(5)]
    sh += [{"kind": "constraints", "k": k, "n": 2, "seed": seed, "tier": tier} for k in range(2)]
    sh += [{"kind": "readers", "k": 0, "n": 1, "seed": seed, "tier": tier}]
    return sh


def run_shard(desc):
    s = Sh(desc)
    try:
        getattr(s, desc["kind"])()
    finally:
        s.probe.close()
    return s.res


def replay(wit):
    print(wit["witness"].get("program", ""))
    r = generic_replay(wit)
    return 1 if r.crashed else 0
