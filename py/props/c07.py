"""C07 — errors reach the nearest matching handler and leave no residue once handled.

Reference-interpreter monitor over error-heavy generated programs (raise / 1/0 / chr range errors / index and
type errors at every position of nested begin/for/forall/while/if/function structures, every combination of
handler names), through Executable::run, bloc_execute and the statement-at-a-time route; afterwards the hooked
context state must carry no residue and a probe program must run as in a context that never failed."""
import random
from vlib import *
import model_lang as ml
import lang_diff as ld

PROPERTY = "C07"
LEVEL = "exploration"
RULE = ("one evaluation = one generated program containing failing operations under handlers, executed through one of three routes and compared "
        "with the reference interpreter (which handler ran, error@1, what was printed, outcome/error reported to the host) followed by the residue "
        "invariants (control stack depth 0, exec level 0, no pending break/continue/return, no symbol flag, live contexts conserved) and a probe "
        "program in the same context; non-trivial = at least one error was raised in the model run (handled or reported); distinct = program hashes")
ASSUMPTIONS = ["python reference interpreter of the manual's Blocks/Raise sections: user names, DIVIDE_BY_ZERO, OUT_OF_RANGE are catchable, `others` "
               "matches those three kinds only, any other run-time error stops the program", "error@2 (message text) is not asserted", "gcc ASan/UBSan runtimes"]


class Sh(ld.DiffRunner):
    def __init__(self, desc):
        ld.DiffRunner.__init__(self, "C07", desc)
        self.route = desc["route"]

    def programs(self):
        n = 700 if self.desc["tier"] == "quick" else 15000
        for _ in range(n):
            g = ml.Gen(self.rnd, "errors")
            funcs, prog = g.program()
            before = len(self.res["nontrivial"])
            self.run_program(funcs, prog, "errors/" + self.route, loopy=False)
            if self.res["counters"].get("worker_crashes", 0) > CRASH_BUDGET: return

    PRE = 'a = 1; b = 2; c = 0; d = int(); p = true; q = bool(); s = "ab"; u = ""; t = tab(2, 4); w = tab(2, 0); tt = tab(2, tab(1, 1));\n'

    def header_errors(self):
        """the failing operation is the loop/condition *header* itself (also failures no handler can catch): whatever the outcome, no
        control state, constraint or table lock is left and the context runs the standard probe afterwards (no reference model involved)"""
        headers = ["forall $x in t loop c = c + 1; end loop;", "forall $x in w desc loop nop; end loop;", "for i in 1 to 3 step 0 loop c = c + 1; end loop;",
                   "for i in 1 / 0 to 3 loop c = c + 1; end loop;", "for i in 1 to 3 / 0 loop c = c + 1; end loop;", "for i in 1 to 3 step 1 / 0 loop nop; end loop;",
                   "forall e in tt.at(5) loop c = c + 1; end loop;", "forall e in tt.at(1 / 0) loop nop; end loop;", "while 1 / 0 > 1 loop nop; end loop;",
                   "if 1 / 0 > 0 then c = 1; end if;", "if false then nop; elsif chr(300) == \"x\" then c = 2; end if;", "for $k in 1 to 3 loop forall $x in t loop nop; end loop; end loop;",
                   "forall e in t loop forall $x in w loop nop; end loop; end loop;", "for i in 1 to 2 loop for j in 1 to 2 step i - 1 loop c = c + 1; end loop; end loop;"]
        wraps = ["%s", "begin %s exception when others then c = -1; end;", "begin %s exception when divide_by_zero then c = -2; when out_of_range then c = -3; end;",
                 "for q in 1 to 2 loop begin %s exception when others then c = -1; end; end loop;", "forall g in w loop %s end loop;",
                 "begin begin %s exception when oops then nop; end; exception when others then c = -4; end;",
                 "function hf return integer is begin %s return 1; end; begin c = hf(); exception when others then c = -5; end;"]
        pre = self.PRE
        k, n = self.desc["k"], self.desc["n"]
        idx = 0
        for h in headers:
            for wr in wraps:
                idx += 1
                if idx % n != k: continue
                text = pre + (wr % h) + "\n"
                self.judge(text, wr % h)

    def judge(self, text, label, expect=None, counter="header_error_programs", kind="fixed"):
        ops = self.ops_for(text)
        r = self.probe.case(ops)
        self.res["evaluations"] += 1; bump(self.res, counter)
        if r.timeout: self.res["inconclusive"] += 1; return
        if r.crashed:
            bump(self.res, "worker_crashes")
            add_violation(self.res, "C07|crash:%s" % r.sig, "header-error program crashed: %s" % r.sig, {"ops": ops, "program": text, "report": r.report[-3000:]}); return
        rep = r.replies
        if self.route == "istmt":
            rep = [rep[0], "perr" + rep[1][4:] if rep[1].startswith("perr") else "ok", rep[1], rep[2], rep[3], "perr" + rep[4][4:] if rep[4].startswith("perr") else "ok", rep[4], rep[5]]
        if not rep[1].startswith("ok"):
            bump(self.res, "header_error_programs_refused_at_compile_time"); return
        ioc, intr, out, steps = ld.impl_outcome(rep[2], self.E)
        if intr:
            self.viol("non-termination|header", "`%s` still running after 20000 statements" % label, ops, text); return
        bad, d = ld.residue(rep[3])
        if bad:
            self.viol("residue|" + bad[0].split()[0], "after `%s` (%s): %s" % (label, ioc, "; ".join(bad)), ops, text); return
        live = int(d["kw"].get("live", "0")); nfn = int(d["kw"].get("nfn", "0")); cached = int(d["kw"].get("cached", "0"))
        if live != 1 + nfn + cached:
            self.viol("context-conservation", "after `%s`: %d live contexts, expected 1 + %d + %d" % (label, live, nfn, cached), ops, text); return
        if not rep[5].startswith("ok") or not rep[6].startswith("ok"):
            self.viol("probe-rejected", "after `%s` (%s) the probe program is refused: %s / %s" % (label, ioc, rep[5][:100], rep[6][:100]), ops, text); return
        pm = ld.markers(unhx(rfields(rep[6])[2].get("out", "-")))
        if pm != ["@@P:3 3 2"]:
            self.viol("probe-output", "after `%s` the probe printed %r" % (label, pm), ops, text); return
        if expect is not None:
            got = ld.markers(out)
            if got != expect:
                self.viol("handled-output|" + kind, "`%s` printed %r, the manual's semantics give %r" % (label[:200], got, expect), ops, text); return
        self.res["nontrivial"].add(case_hash(text))
        bump(self.res, "header_error_outcome_" + ioc[0])

    def handled_fixed(self):
        """errors handled *inside functions* while loops of the protected block are open, calls repeated (the function's context is
        recycled), and handlers that execute break/continue after the error has closed the block's loops.  Expected markers are derived
        by hand from the manual; where the manual is silent (a break with no loop in control) only residue and the probe are judged."""
        F1 = ("function f1(n:integer) return integer is begin k = 0; begin for i in 1 to n loop k = k + 1; if i == 3 then raise oops; end if; end loop; "
              "exception when oops then k = k + 100; end; return k; end;\n")
        F2 = ("function f2(n:integer) return integer is begin k = 0; t = tab(4, 1); begin forall e in t loop k = k + e; if k == n then a = 1 / 0; end if; end loop; "
              "exception when divide_by_zero then k = k + 50; end; return k; end;\n")
        F3 = ("function thr(x:integer) return integer is begin for j in 1 to 3 loop if j == x then raise oops; end if; end loop; return 7; end;\n"
              "function f3(x:integer) return integer is begin r = 0; begin w = 0; while w < 3 loop w = w + 1; r = r + thr(x); end loop; "
              "exception when oops then r = r + 1000; end; return r; end;\n")
        F4 = ("function f4(n:integer) return integer is begin k = 0; for o in 1 to 2 loop begin for i in 1 to n loop k = k + 1; if i == 2 then raise oops; end if; end loop; "
              "exception when oops then k = k + 10; continue; end; k = k + 1000; end loop; return k; end;\n")
        def P(*xs): return "".join('print "@@A:" + str(%s);\n' % x for x in xs)
        cases = [
            (F1 + P("f1(2)", "f1(5)", "f1(5)", "f1(2)"), ["@@A:2", "@@A:103", "@@A:103", "@@A:2"]),
            (F1 + "for q in 1 to 3 loop " + P("f1(4)").strip() + " end loop;\n" + P("f1(1)"), ["@@A:103"] * 3 + ["@@A:1"]),
            (F2 + P("f2(9)", "f2(2)", "f2(2)", "f2(9)"), ["@@A:4", "@@A:52", "@@A:52", "@@A:4"]),
            (F3 + P("f3(9)", "f3(2)", "f3(2)", "f3(9)", "thr(9)"), ["@@A:21", "@@A:1000", "@@A:1000", "@@A:21", "@@A:7"]),
            (F4 + P("f4(1)", "f4(3)", "f4(3)", "f4(1)"), ["@@A:2002", "@@A:24", "@@A:24", "@@A:2002"]),
            (F1 + F2 + P("f1(3) + f2(1)", "f2(3) + f1(3)", "f1(9) + f2(9)"), ["@@A:154", "@@A:156", "@@A:107"]),
            # main program: the error closes the loop of the block, the handler then runs break / continue inside an OUTER loop (defined)
            ("c = 0;\nfor o in 1 to 3 loop begin for i in 1 to 3 loop c = c + 1; if i == 2 then raise oops; end if; end loop; exception when oops then c = c + 10; "
             "if o == 2 then break; end if; continue; end; c = c + 1000; end loop;\n" + P("c"), ["@@A:24"]),
            # ... and with no loop left in control (the manual is silent on what break does here): residue and probe only
            ('c = 0;\nbegin for i in 1 to 3 loop if i == 2 then raise oops; end if; end loop; exception when oops then print "@@A:h"; break; end;\n' + P("c"), None),
            ('c = 0;\nbegin forall e in tab(3, 1) loop c = c + 1 / (2 - c); end loop; exception when others then print "@@A:h"; continue; end;\n' + P("c"), None),
            ('function f5 return integer is begin begin for i in 1 to 3 loop raise oops; end loop; exception when oops then break; end; return 5; end;\n' + P("f5()"), None),
            ('c = 0;\nwhile c < 2 loop c = c + 1; begin while true loop raise oops; end loop; exception when others then nop; end; end loop;\nbreak;\n' + P("c"), None),
        ]
        k, n = self.desc["k"], self.desc["n"]
        for i, (text, expect) in enumerate(cases):
            if i % n != k: continue
            self.judge(self.PRE + text, text.replace("\n", " ")[:160], expect=expect, counter="handled_fixed_programs", kind="in-function" if "function" in text else "main")

    def placements(self):
        """every placement of one failing operation in a fixed nest, with every handler-name combination"""
        fails = [("raise", "oops"), ("raise", "divide_by_zero"), ("raise", "out_of_range"), ("assign", "c", ("bin", "/", ("int", 1), ("int", 0))),
                 ("assign", "c", ("strlen", ("chr", ("int", 300)))), ("assign", "c", ("at", "t", ("int", 99))), ("assign", "c", ("typeerr",)),
                 ("assign", "c", ("call", "fthrow", [("int", 1)])), ("assign", "c", ("call", "fthrow", [("int", 2)])), ("assign", "c", ("call", "fthrow", [("bin", "/", ("int", 1), ("int", 0))]))]
        handlersets = [[], ["oops"], ["divide_by_zero"], ["out_of_range"], ["others"], ["nomatch"], ["oops", "others"], ["nomatch", "divide_by_zero", "out_of_range"], ["others", "oops"]]
        fthrow = {"name": "fthrow", "params": ["x0"], "ptypes": ["int"], "ret": "int", "order": 0,
                  "body": [("for", "li", ("int", 1), ("int", 3), None, None, [("if", [(("bin", "==", ("var", "li"), ("int", 2)), [("if", [(("bin", "==", ("var", "x0"), ("int", 1)), [("raise", "oops")])], [("assign", "x0", ("bin", "/", ("var", "x0"), ("int", 0)))])])], None)]),
                           ("return", ("int", 5))]}
        tmul = {"name": "tmul", "params": ["z"], "ptypes": [None], "ret": "int", "order": 99, "body": [("return", ("bin", "*", ("var", "z"), ("int", 2)))]}
        nests = ["plain", "for", "forall", "while", "if", "for-forall", "begin-in-for", "handler-raises", "for-header", "while-cond", "if-cond", "for-limit", "nested-while-cond", "toplevel-loop"]
        cases = []
        for fi, fl in enumerate(fails):
            for hs in handlersets:
                for ouths in ([], ["others"], ["oops"]):
                    for nest in nests:
                        cases.append((fl, hs, ouths, nest))
        k, n = self.desc["k"], self.desc["n"]
        mine = [c for i, c in enumerate(cases) if i % n == k]
        m = [0]
        def mk():
            m[0] += 1; return m[0]
        for fl, hs, ouths, nest in mine:
            m[0] = 0
            def H(names):
                return [(nme, [("print", mk(), [("errname",)]), ("assign", "b", ("bin", "+", ("var", "b"), ("int", 1)))]) for nme in names]
            inner_body = [("print", mk(), [("var", "c")]), fl, ("print", mk(), [("int", 99)])]
            if nest == "plain": core = inner_body
            elif nest == "for": core = [("for", "i", ("int", 1), ("int", 2), None, None, inner_body)]
            elif nest == "forall": core = [("forall", "e", "t", None, inner_body)]
            elif nest == "while": core = [("assign", "a", ("int", 0)), ("while", ("bin", "<", ("var", "a"), ("int", 2)), [("assign", "a", ("bin", "+", ("var", "a"), ("int", 1)))] + inner_body)]
            elif nest == "if": core = [("if", [(("bool", True), inner_body)], None)]
            elif nest == "for-forall": core = [("for", "i", ("int", 1), ("int", 2), None, None, [("forall", "e", "t", "desc", inner_body)])]
            elif nest in ("while-cond", "if-cond", "for-limit", "nested-while-cond") and fl[0] != "assign": continue
            elif nest == "while-cond": core = [("while", ("bin", ">", fl[2], ("int", 0)), [("print", mk(), [("int", 1)]), ("break",)])]
            elif nest == "if-cond": core = [("for", "i", ("int", 1), ("int", 2), None, None, [("if", [(("bin", ">", fl[2], ("int", 0)), [("print", mk(), [("int", 1)])])], None)])]
            elif nest == "for-limit": core = [("forall", "e", "t", None, [("for", "i", ("int", 1), fl[2], None, None, [("print", mk(), [("var", "i")]), ("break",)])])]
            elif nest == "nested-while-cond": core = [("for", "i", ("int", 1), ("int", 2), None, None, [("forall", "e", "t", None, [("while", ("bin", ">", fl[2], ("int", 0)), [("break",)])])])]
            elif nest == "toplevel-loop": core = None
            elif nest == "begin-in-for": core = None
            elif nest == "handler-raises": core = None
            else: core = [("for", "i", ("bin", "/", ("int", 1), ("int", 0)) if fl[0] != "raise" else ("int", 1), ("int", 2), None, None, inner_body)]
            if nest == "begin-in-for":
                prog_core = [("for", "i", ("int", 1), ("int", 3), None, None, [("begin", inner_body, H(hs)), ("print", mk(), [("var", "i")])])]
            elif nest == "handler-raises":
                prog_core = [("begin", inner_body, [(nme, [("print", mk(), [("errname",)]), ("raise", "e42")]) for nme in hs])]
            else:
                prog_core = [("begin", core, H(hs))]
            init = [("assign", "a", ("int", 0)), ("assign", "b", ("int", 0)), ("assign", "c", ("int", 0)), ("assign", "t", ("tab", ("int", 2), ("int", 4))), ("assign", "w", ("tab", ("int", 1), ("int", 0)))]
            if nest == "toplevel-loop":
                # the failing operation sits in loops that are top-level statements (no enclosing begin): the error is reported to the host
                if hs or ouths: continue
                prog = init + [("for", "i", ("int", 1), ("int", 2), None, None, [("forall", "e", "t", None, [("assign", "a", ("int", 0)), ("while", ("bin", "<", ("var", "a"), ("int", 2)), [("assign", "a", ("bin", "+", ("var", "a"), ("int", 1)))] + inner_body)])]),
                               ("print", mk(), [("var", "a")])]
            else:
                prog = init + [("begin", prog_core + [("print", mk(), [("str", "after-inner")])], H(ouths)),
                               ("print", mk(), [("var", "a"), ("var", "b"), ("var", "c"), ("count", "t")])]
            self.run_program([fthrow, tmul], prog, "placement %s in %s, handlers %s / outer %s (%s)" % (ml.rstmts([fl], 0, None)[0], nest, hs, ouths, self.route), loopy=False)
            if self.res["counters"].get("worker_crashes", 0) > CRASH_BUDGET: return


def plan(tier, seed):
    sh = []
    for i, route in enumerate(["cpp", "capi", "istmt"]):
        for k in range(2): sh.append({"kind": "placements", "k": k, "n": 2, "seed": seed, "tier": tier, "route": route})
        sh.append({"kind": "header_errors", "k": 0, "n": 1, "seed": seed, "tier": tier, "route": route})
        sh.append({"kind": "handled_fixed", "k": 0, "n": 1, "seed": seed, "tier": tier, "route": route})
        for k in range(3): sh.append({"kind": "programs", "k": k + 10 * i, "n": 3, "seed": seed, "tier": tier, "route": route})
    return sh


def run_shard(desc):
    s = Sh(desc)
    try:
        if desc["kind"] == "placements": s.placements()
        elif desc["kind"] == "header_errors": s.header_errors()
        elif desc["kind"] == "handled_fixed": s.handled_fixed()
        else: s.programs()
    finally:
        s.probe.close()
    return s.res


def replay(wit):
    print(wit["witness"].get("program", ""))
    r = generic_replay(wit)
    return 1 if r.crashed else 0
