"""G_model: a narrow, *modelled* subset of BLOC with (a) a seeded program generator, (b) a renderer to BLOC
source and (c) a reference interpreter implementing only documented behaviour (manual sections Blocks,
Control Structures, For/Forall Statement, Raise/Return Statement, Function Definitions, Logical Operators).

Values: small integers (INT64 edge constants in loop headers only), booleans with nulls, short ASCII strings,
one-dimensional tables of integer; every variable keeps one static type.  At most one effectful or possibly
raising sub-expression per statement, in first position (the manual does not fix evaluation order)."""
import random

M64 = 1 << 64
IMAX = (1 << 63) - 1
IMIN = -(1 << 63)


def s64(x):
    x &= M64 - 1
    return x - M64 if x >= (1 << 63) else x


# ------------------------------------------------------------------------------------------------
# reference interpreter

class BlocError(Exception):
    def __init__(self, kind, name):
        self.kind = kind      # 'user' | 'dz' | 'oor' | 'fatal'
        self.name = name      # DIVIDE_BY_ZERO / OUT_OF_RANGE / USER NAME / description of fatal error


class _Break(Exception): pass
class _Continue(Exception): pass
class _Return(Exception):
    def __init__(self, v): self.v = v


class Limit(Exception):
    pass


class _Nothing:
    """what a call yields when the function ended with a bare `return;`: an *untyped* null.  The manual says the declared return
    type "imposes no constraints at runtime"; the only place where the missing type is observable in G_model is a direct
    assignment to a type-constrained variable (the control variable of an active for/forall), which is refused at run time."""
    def __repr__(self): return "NOTHING"
NOTHING = _Nothing()


class Interp:
    def __init__(self, funcs, maxsteps=6000):
        self.funcs = {(f["name"], len(f["params"])): f for f in funcs}
        self.out = []
        self.steps = 0
        self.maxsteps = maxsteps
        self.depth = 0
        self.err = None      # current error inside a handler
        self.ret_forvars = {}

    # a forall iterator *is* the table element (manual: "the iterator variable points to item value"): reads and writes go through
    def rd(self, env, name):
        al = env.get("\0alias", {}).get(name)
        if al is not None:
            return al[0][al[1]]
        return env.get(name)

    def wr(self, env, name, v):
        al = env.get("\0alias", {}).get(name)
        if al is not None:
            al[0][al[1]] = v
        else:
            env[name] = v

    # -- expressions
    def ev(self, e, env):
        v = self._ev(e, env)
        return None if v is NOTHING else v

    def raw(self, e, env):
        """value of an expression where the untyped null survives: a direct call or a plain variable (copying a variable that holds the
        untyped null copies it, observed: typeof is 'undefined'); every operator, put/concat and print turn it into an ordinary null"""
        return self._ev(e, env) if e[0] in ("call", "var") else self.ev(e, env)

    def _ev(self, e, env):
        k = e[0]
        if k == "int": return e[1]
        if k == "bool": return e[1]
        if k == "str": return e[1]
        if k == "null": return None
        if k == "var": return self.rd(env, e[1])
        if k == "bin":
            op = e[1]
            if op in ("and", "or"):
                a = self.ev(e[2], env)
                # no short-circuit assumption: operands are side-effect free by construction
                b = self.ev(e[3], env)
                if op == "and":
                    if a is False or b is False: return False
                    if a is None or b is None: return None
                    return True
                if a is True or b is True: return True
                if a is None or b is None: return None
                return False
            a = self.ev(e[2], env); b = self.ev(e[3], env)
            if op in ("==", "!=", "<", "<=", ">", ">="):
                if a is None or b is None: return None
                return {"==": a == b, "!=": a != b, "<": a < b, "<=": a <= b, ">": a > b, ">=": a >= b}[op]
            if op == "cat":
                if a is None: return b
                if b is None: return a
                if len(a) + len(b) > 2000: raise Limit()      # keep generated programs small (exponential growth in loops)
                return a + b
            if a is None or b is None:
                if op in ("/", "%") and b == 0 and a is None:
                    return None
                return None
            if op == "+": return s64(a + b)
            if op == "-": return s64(a - b)
            if op == "*": return s64(a * b)
            if op in ("/", "%"):
                if b == 0: raise BlocError("dz", "DIVIDE_BY_ZERO")
                q = abs(a) // abs(b)
                if (a < 0) != (b < 0): q = -q
                if op == "/": return s64(q)
                return s64(a - q * b)
            raise ValueError(op)
        if k == "not":
            a = self.ev(e[1], env)
            return None if a is None else (not a)
        if k == "neg":
            a = self.ev(e[1], env)
            return None if a is None else s64(-a)
        if k == "isnull":
            return self.ev(e[1], env) is None
        if k == "call":
            return self.call(e[1], [self.raw(a, env) for a in e[2]])
        if k == "at":
            t = env.get(e[1]); i = self.ev(e[2], env)
            if t is None or i is None or not (0 <= i < len(t)):
                raise BlocError("fatal", "INDEX_RANGE")
            return t[i]
        if k == "count":
            t = env.get(e[1])
            return None if t is None else len(t)
        if k == "strint":
            a = self.ev(e[1], env)
            return None if a is None else str(a)
        if k == "strlen":
            a = self.ev(e[1], env)
            return None if a is None else len(a)
        if k == "tab":
            n = self.ev(e[1], env); v = self.ev(e[2], env)
            return [v] * n
        if k == "chr":      # chr(x): OUT_OF_RANGE outside 0..255 (possibly raising)
            a = self.ev(e[1], env)
            if a is None: return None
            if not (0 <= a <= 255): raise BlocError("oor", "OUT_OF_RANGE")
            return chr(a)
        if k == "errname":
            return self.err
        if k == "typeerr":
            # a run-time type error produced through an opaque parameter: not catchable, stops the program
            raise BlocError("fatal", "ANY")
        raise ValueError(k)

    def call(self, name, args):
        f = self.funcs[(name, len(args))]
        if self.depth >= 255:
            raise BlocError("fatal", "RECURSION_LIMIT")
        env = {}
        for p, a in zip(f["params"], args):
            env[p] = list(a) if isinstance(a, list) else a
        self.depth += 1
        try:
            self.block(f["body"], env)
            # falling off the end without return
            raise BlocError("fatal", "NO_RETURN_VALUE")
        except _Return as r:
            return r.v
        finally:
            self.depth -= 1

    # -- statements
    def block(self, stmts, env):
        for s in stmts:
            self.stmt(s, env)

    def show(self, v):
        if v is None: return "null"
        if v is True: return "TRUE"
        if v is False: return "FALSE"
        return str(v)

    def stmt(self, s, env):
        self.steps += 1
        if self.steps > self.maxsteps:
            raise Limit()
        k = s[0]
        if k == "assign":
            v = self.raw(s[2], env)
            if v is NOTHING:
                if s[1] in env.get("\0alias", {}) or s[1] in env.get("\0forvars", ()):
                    raise BlocError("fatal", "ANY")      # untyped null into a type-constrained control variable
            self.wr(env, s[1], list(v) if isinstance(v, list) else v)
        elif k == "print":
            vals = [self.ev(e, env) for e in s[2]]
            self.out.append("@@%d:" % s[1] + " ".join(self.show(v) for v in vals))
        elif k == "if":
            for cond, body in s[1]:
                if self.ev(cond, env) is True:
                    self.block(body, env); return
            if s[2] is not None:
                self.block(s[2], env)
        elif k == "while":
            while self.ev(s[1], env) is True:
                try:
                    self.block(s[2], env)
                except _Break:
                    break
                except _Continue:
                    continue
        elif k == "for":
            _, var, first, limit, step, direction, body = s
            a = self.ev(first, env); b = self.ev(limit, env)
            st = 1 if step is None else self.ev(step, env)
            if step is not None and st is not None and st < 1:
                raise BlocError("oor", "OUT_OF_RANGE")
            if a is None or b is None or st is None:
                return
            if direction == "asc" and a > b: return
            if direction == "desc" and a < b: return
            lo, hi = min(a, b), max(a, b)
            down = (a > b) if direction is None else (direction == "desc")
            cur = a
            forvars = env.setdefault("\0forvars", [])
            forvars.append(var)
            try:
                while True:
                    env[var] = cur
                    try:
                        self.block(body, env)
                    except _Break:
                        break
                    except _Continue:
                        pass
                    cur = env[var]          # the body may assign the control variable
                    nxt = cur - st if down else cur + st      # unbounded integers: the variable never wraps
                    if nxt < lo or nxt > hi:
                        break
                    cur = nxt
            finally:
                forvars.pop()
        elif k == "forall":
            _, var, tname, direction, body = s
            t = env.get(tname)
            if t:
                idx = range(len(t) - 1, -1, -1) if direction == "desc" else range(len(t))
                aliases = env.setdefault("\0alias", {})
                try:
                    for i in idx:
                        aliases[var] = (t, i)
                        try:
                            self.block(body, env)
                        except _Break:
                            break
                        except _Continue:
                            continue
                finally:
                    aliases.pop(var, None)
            env[var] = None
        elif k == "begin":
            try:
                self.block(s[1], env)
            except BlocError as e:
                if e.kind == "fatal":
                    raise
                for name, hbody in s[2]:
                    if name == "others" or name.upper() == e.name:
                        saved = self.err
                        self.err = e.name
                        try:
                            self.block(hbody, env)
                        finally:
                            self.err = saved
                        return
                raise
        elif k == "raise":
            nm = s[1].upper()
            if nm == "DIVIDE_BY_ZERO": raise BlocError("dz", nm)
            if nm == "OUT_OF_RANGE": raise BlocError("oor", nm)
            raise BlocError("user", nm)
        elif k == "break": raise _Break()
        elif k == "continue": raise _Continue()
        elif k == "return":
            if env is getattr(self, "env", None):
                # a return executed inside for loops of the main program: the control variables keep the values they have right now
                self.ret_forvars = {v: env.get(v) for v in env.get("\0forvars", [])}
            if s[1] is None: raise _Return(NOTHING)
            raise _Return(self.raw(s[1], env))
        elif k == "do":
            self.ev(s[1], env)
        elif k == "put":     # t.put(i, v)
            t = env.get(s[1]); i = self.ev(s[2], env); v = self.ev(s[3], env)
            if t is None or i is None or not (0 <= i < len(t)):
                raise BlocError("fatal", "INDEX_RANGE")
            t[i] = v
        elif k == "concat":
            t = env.get(s[1]); v = self.ev(s[2], env)
            if len(t) > 500: raise Limit()
            t.append(v)
        elif k == "nop":
            pass
        else:
            raise ValueError(k)

    def run(self, prog, env=None):
        """returns (outcome, detail): ('ok',None) | ('returned', value) | ('error', name)"""
        env = {} if env is None else env
        self.env = env
        try:
            self.block(prog, env)
            return ("ok", None)
        except _Return as r:
            return ("returned", None if r.v is NOTHING else r.v)
        except BlocError as e:
            return ("error", e.name)
        except (_Break, _Continue):
            return ("ok", None)


# ------------------------------------------------------------------------------------------------
# renderer

def rexpr(e):
    k = e[0]
    if k == "int":
        if e[1] == IMIN: return "(-9223372036854775807 - 1)"
        return str(e[1]) if e[1] >= 0 else "(%d)" % e[1]
    if k == "bool": return "true" if e[1] else "false"
    if k == "str": return '"%s"' % e[1]
    if k == "null": return e[1] if len(e) > 1 else "null"
    if k == "var": return e[1]
    if k == "bin":
        op = "+" if e[1] == "cat" else e[1]
        return "(%s %s %s)" % (rexpr(e[2]), op, rexpr(e[3]))
    if k == "not": return "(not %s)" % rexpr(e[1])
    if k == "neg": return "(- %s)" % rexpr(e[1])
    if k == "isnull": return "isnull(%s)" % rexpr(e[1])
    if k == "call": return "%s(%s)" % (e[1], ", ".join(rexpr(a) for a in e[2]))
    if k == "at": return "%s.at(%s)" % (e[1], rexpr(e[2]))
    if k == "count": return "%s.count()" % e[1]
    if k == "strint": return "str(%s)" % rexpr(e[1])
    if k == "strlen": return "strlen(%s)" % rexpr(e[1])
    if k == "tab": return "tab(%s, %s)" % (rexpr(e[1]), rexpr(e[2]))
    if k == "chr": return "chr(%s)" % rexpr(e[1])
    if k == "errname": return "error@1"
    if k == "typeerr": return 'tmul("x")'
    raise ValueError(k)


def rstmts(stmts, ind, rnd):
    out = []
    pad = "  " * ind
    for s in stmts:
        k = s[0]
        if k == "assign": out.append("%s%s = %s;" % (pad, s[1], rexpr(s[2])))
        elif k == "print":
            parts = ['"@@%d:"' % s[1]]
            for i, e in enumerate(s[2]):
                if i: parts.append('" "')
                parts.append(rexpr(e))
            out.append("%sprint %s;" % (pad, " ".join(parts)))
        elif k == "if":
            for i, (c, b) in enumerate(s[1]):
                out.append("%s%s %s then" % (pad, "if" if i == 0 else "elsif", rexpr(c)))
                out.extend(rstmts(b, ind + 1, rnd))
            if s[2] is not None:
                out.append("%selse" % pad); out.extend(rstmts(s[2], ind + 1, rnd))
            out.append("%send if;" % pad)
        elif k == "while":
            out.append("%swhile %s loop" % (pad, rexpr(s[1]))); out.extend(rstmts(s[2], ind + 1, rnd)); out.append("%send loop;" % pad)
        elif k == "for":
            _, var, a, b, st, d, body = s
            h = "%sfor %s in %s to %s" % (pad, var, rexpr(a), rexpr(b))
            if st is not None: h += " step %s" % rexpr(st)
            if d: h += " " + d
            out.append(h + " loop"); out.extend(rstmts(body, ind + 1, rnd)); out.append("%send loop;" % pad)
        elif k == "forall":
            _, var, t, d, body = s
            out.append("%sforall %s in %s%s loop" % (pad, var, t, (" " + d) if d else "")); out.extend(rstmts(body, ind + 1, rnd)); out.append("%send loop;" % pad)
        elif k == "begin":
            out.append("%sbegin" % pad); out.extend(rstmts(s[1], ind + 1, rnd))
            if s[2]:
                out.append("%sexception" % pad)
                for name, hb in s[2]:
                    out.append("%swhen %s then" % (pad, name)); out.extend(rstmts(hb, ind + 1, rnd))
            out.append("%send;" % pad)
        elif k == "raise": out.append("%sraise %s;" % (pad, s[1]))
        elif k == "break": out.append("%sbreak;" % pad)
        elif k == "continue": out.append("%scontinue;" % pad)
        elif k == "return": out.append("%sreturn%s;" % (pad, "" if s[1] is None else " " + rexpr(s[1])))
        elif k == "do": out.append("%s%s%s;" % (pad, rnd.choice(["do ", ""]) if rnd else "do ", rexpr(s[1])))
        elif k == "put": out.append("%s%s.put(%s, %s);" % (pad, s[1], rexpr(s[2]), rexpr(s[3])))
        elif k == "concat": out.append("%s%s.concat(%s);" % (pad, s[1], rexpr(s[2])))
        elif k == "nop": out.append("%snop;" % pad)
        else: raise ValueError(k)
    return out


TYPENAME = {"int": "integer", "bool": "boolean", "str": "string", "tab": "table"}


def rfunc(f, rnd=None):
    ps = ", ".join("%s%s" % (p, (":" + TYPENAME[t]) if t else "") for p, t in zip(f["params"], f["ptypes"]))
    head = "function %s%s return %s is" % (f["name"], ("(" + ps + ")") if f["params"] else (rnd.choice(["", "()"]) if rnd else ""), TYPENAME.get(f["ret"], "undefined"))
    return [head, "begin"] + rstmts(f["body"], 1, rnd) + ["end;"]


def render(funcs, prog, rnd=None, toplevel_split=False):
    """returns source text; with toplevel_split=True returns the list of top-level statement texts (functions first)"""
    chunks = []
    for f in funcs:
        chunks.append("\n".join(rfunc(f, rnd)))
    for s in prog:
        chunks.append("\n".join(rstmts([s], 0, rnd)))
    if toplevel_split:
        return chunks
    return "\n".join(chunks) + "\n"


# ------------------------------------------------------------------------------------------------
# generator

class Gen:
    """Type-aware generator.  Global variables with fixed static types:
       ints a b c d, bools p q, strings s u, int tables t w; loop variables i j k; forall iterators e f."""
    INTS = ["a", "b", "c", "d"]; BOOLS = ["p", "q"]; STRS = ["s", "u"]; TABS = ["t", "w"]
    LOOPV = ["i", "j", "k"]; ITERV = ["e", "f"]

    def __init__(self, rnd, focus="loops", nfuncs=None):
        self.r = rnd
        self.focus = focus
        self.marker = 0
        self.funcs = []
        self.loop_budget = 40          # total iterations the program may perform (kept small)
        self.in_func = None
        self.user_errors = ["oops", "bad_thing", "e42"]
        self.nfuncs = nfuncs

    # ---- pure expressions ----------------------------------------------------------------
    def ints_in_scope(self, sc): return [v for v in sc["ints"]]

    def int_expr(self, sc, depth=0):
        r = self.r; k = r.random()
        vs = sc["ints"]
        if depth > 1 or k < 0.35:
            if vs and r.random() < 0.6: return ("var", r.choice(vs))
            return ("int", r.choice([0, 1, 2, 3, 5, 7, -1, -2, 10]))
        if k < 0.75:
            return ("bin", r.choice(["+", "-", "*"]), self.int_expr(sc, depth + 1), self.int_expr(sc, depth + 1))
        if k < 0.82 and sc["tabs"]:
            return ("count", r.choice(sc["tabs"]))
        if k < 0.9 and sc["strs"]:
            return ("strlen", ("var", r.choice(sc["strs"])))
        return ("neg", self.int_expr(sc, depth + 1))

    def bool_expr(self, sc, depth=0):
        r = self.r; k = r.random()
        if depth > 1 or k < 0.3:
            if sc["bools"] and r.random() < 0.5: return ("var", r.choice(sc["bools"]))
            return ("bin", r.choice(["==", "!=", "<", "<=", ">", ">="]), self.int_expr(sc, 1), self.int_expr(sc, 1))
        if k < 0.6:
            return ("bin", r.choice(["and", "or"]), self.bool_expr(sc, depth + 1), self.bool_expr(sc, depth + 1))
        if k < 0.7: return ("not", self.bool_expr(sc, depth + 1))
        if k < 0.8 and sc["ints"]: return ("isnull", ("var", r.choice(sc["ints"])))
        return ("bool", r.random() < 0.5)

    def str_expr(self, sc, depth=0):
        r = self.r; k = r.random()
        if depth > 1 or k < 0.4:
            if sc["strs"] and r.random() < 0.5: return ("var", r.choice(sc["strs"]))
            return ("str", r.choice(["", "x", "ab", "hello", "Z9"]))
        if k < 0.7: return ("bin", "cat", self.str_expr(sc, depth + 1), self.str_expr(sc, depth + 1))
        return ("strint", self.int_expr(sc, 1))

    def expr_of(self, ty, sc):
        return {"int": self.int_expr, "bool": self.bool_expr, "str": self.str_expr}[ty](sc)

    def arg_of(self, ty, sc):
        if ty == "tab":
            return ("var", self.r.choice(sc["tabs"])) if sc["tabs"] else ("tab", ("int", 2), ("int", 1))
        return self.expr_of(ty, sc)

    # ---- possibly raising / effectful head expressions (first position only) ---------------
    def raising_int(self, sc):
        r = self.r; k = r.random()
        if self.focus == "errors" and self.in_func is None and r.random() < 0.12:
            return ("typeerr",)
        if k < 0.45:
            return ("bin", r.choice(["/", "%"]), self.int_expr(sc, 1), r.choice([("int", 0), ("int", 2), self.int_expr(sc, 1), ("bin", "-", ("var", r.choice(sc["ints"])), ("var", r.choice(sc["ints"]))) if sc["ints"] else ("int", 0)]))
        if k < 0.7 and self.callable_funcs(sc, "int"):
            f = r.choice(self.callable_funcs(sc, "int"))
            args = [self.arg_of(t, sc) for t in f["ptypes"]]
            if args and f["ptypes"][0] == "int" and r.random() < 0.15:
                # the evaluation of the (first) argument itself fails
                args[0] = ("bin", "/", self.int_expr(sc, 1), r.choice([("int", 0), ("bin", "-", ("int", 2), ("int", 2))]))
            return ("call", f["name"], args)
        if k < 0.85 and sc["tabs"]:
            return ("at", r.choice(sc["tabs"]), r.choice([("int", 0), ("int", 1), ("int", 2), ("int", 7), ("int", -1), self.int_expr(sc, 1)]))
        return ("strlen", ("chr", r.choice([("int", 65), ("int", 255), ("int", 256), ("int", -1), self.int_expr(sc, 1)])))

    def callable_funcs(self, sc, ret):
        # inside a function only functions declared earlier (or itself, guarded) are called
        fs = [f for f in self.funcs if f["ret"] == ret and f["name"] != "tmul"]
        if self.in_func is not None:
            fs = [f for f in fs if f["order"] < self.in_func["order"]]
        return fs

    def wint(self, sc):
        """an integer variable that may be written here"""
        c = [v for v in sc["ints"] if v not in sc.get("nowrite", []) and v not in sc["loopv"] and v not in ("li", "lj")]
        if not c:
            c = [v for v in sc["ints"] if v not in sc.get("nowrite", [])]
        return self.r.choice(c) if c else ("a" if self.in_func is None else "lz")

    def p_raise(self, sc):
        if sc.get("in_begin"): return 0.3
        return {"loops": 0.06, "errors": 0.2, "functions": 0.12}.get(self.focus, 0.1)

    # ---- statements ------------------------------------------------------------------------
    def mk(self):
        self.marker += 1
        return self.marker

    def print_stmt(self, sc):
        r = self.r
        n = r.randint(1, 3)
        es = []
        for _ in range(n):
            ty = r.choice(["int", "int", "bool", "str"])
            es.append(self.expr_of(ty, sc))
        # print evaluates and prints its arguments one by one: a raising argument would leave a partial line, so
        # possibly raising expressions only appear as the right-hand side of assignments
        return ("print", self.mk(), es)

    def assign_stmt(self, sc):
        r = self.r
        ty = r.choice(["int", "int", "int", "bool", "str"])
        names = sc[{"int": "ints", "bool": "bools", "str": "strs"}[ty]]
        if not names: ty = "int"; names = sc["ints"]
        names = [n for n in names if n not in sc.get("nowrite", [])]
        if not names: return ("nop",)
        name = r.choice(names)
        if ty == "int" and r.random() < self.p_raise(sc):
            return ("assign", name, self.raising_int(sc))
        return ("assign", name, self.expr_of(ty, sc))

    def body(self, sc, depth, n=None, in_loop=False):
        r = self.r
        n = n if n is not None else r.randint(1, 4)
        out = []
        for _ in range(n):
            out.append(self.stmt(sc, depth, in_loop))
        return out

    def stmt(self, sc, depth, in_loop):
        r = self.r; k = r.random()
        f = self.focus
        if depth >= 3:
            k = k * 0.45
        w_loop = 0.22 if f == "loops" else 0.12
        w_exc = 0.2 if f == "errors" else 0.08
        if k < 0.25: return self.print_stmt(sc)
        if k < 0.45: return self.assign_stmt(sc)
        k2 = (k - 0.45) / 0.55
        if k2 < w_loop:
            return self.for_stmt(sc, depth)
        if k2 < w_loop * 1.6 and sc["tabs"] and sc["iters"]:
            return self.forall_stmt(sc, depth)
        if k2 < w_loop * 2.0:
            return self.while_stmt(sc, depth)
        if k2 < w_loop * 2.0 + 0.2:
            return self.if_stmt(sc, depth, in_loop)
        if k2 < w_loop * 2.0 + 0.2 + w_exc:
            return self.begin_stmt(sc, depth, in_loop)
        if k2 < w_loop * 2.0 + 0.2 + w_exc + 0.08:
            if sc.get("in_begin") or r.random() < (0.5 if f == "errors" else 0.1):
                return ("raise", r.choice(self.user_errors + ["divide_by_zero", "out_of_range"]))
            return self.print_stmt(sc)
        if in_loop and r.random() < 0.5:
            return (r.choice(["break", "continue"]),)
        if r.random() < 0.15:
            if self.in_func is not None:
                # the returned expression may raise or call: control must still reach the nearest handler / the callee must run normally
                if r.random() < 0.2:
                    return ("return", None)      # bare return: the call yields null
                return ("return", self.raising_int(sc) if r.random() < 0.4 else self.expr_of(self.in_func["ret"], sc))
            if f != "functions":
                fs = self.callable_funcs(sc, "int")
                if fs and r.random() < 0.5:
                    fn = r.choice(fs)
                    return ("return", ("call", fn["name"], [self.arg_of(t, sc) for t in fn["ptypes"]]))
                return ("return", r.choice([None, self.int_expr(sc, 1), self.raising_int(sc)]))
        if sc["tabs"] and r.random() < 0.4:
            free_t = [x for x in sc["tabs"] if x not in sc["locked"]]
            if free_t:
                t = r.choice(free_t)
                if r.random() < 0.5: return ("concat", t, self.int_expr(sc, 1))
                return ("put", t, r.choice([("int", 0), ("int", 1), ("int", 5), self.int_expr(sc, 1)]), self.int_expr(sc, 1))
        fs = self.callable_funcs(sc, "int")
        if fs and r.random() < 0.6:
            fn = r.choice(fs)
            return ("do", ("call", fn["name"], [self.arg_of(t, sc) for t in fn["ptypes"]]))
        return self.print_stmt(sc)

    def if_stmt(self, sc, depth, in_loop):
        r = self.r
        arms = [(self.bool_expr(sc), self.body(sc, depth + 1, r.randint(1, 3), in_loop))]
        while r.random() < 0.3 and len(arms) < 3:
            arms.append((self.bool_expr(sc), self.body(sc, depth + 1, r.randint(1, 2), in_loop)))
        els = self.body(sc, depth + 1, r.randint(1, 2), in_loop) if r.random() < 0.5 else None
        return ("if", arms, els)

    def for_stmt(self, sc, depth):
        r = self.r
        free = [v for v in sc["loopv"] if v not in sc["active"]]
        if not free: return self.print_stmt(sc)
        var = r.choice(free)
        k = r.random()
        if k < 0.55:
            a = r.choice([0, 1, 2, 3, -1, -2]); b = a + r.choice([0, 1, 2, 3, -1, -2, -3])
        elif k < 0.75:
            base = r.choice([IMAX, IMAX - 1, IMAX - 2, IMIN, IMIN + 1, IMIN + 2])
            a = base; b = max(IMIN, min(IMAX, base + r.choice([0, 1, 2, -1, -2])))
            if r.random() < 0.5: a, b = b, a
        else:
            a = r.choice([0, 5, -3]); b = a + r.choice([4, -4, 6])
        fa = ("int", a); fb = ("int", b)
        if r.random() < 0.2 and sc["ints"]: fa = r.choice([("var", r.choice(sc["ints"])), ("null", "int()")])
        if r.random() < 0.12: fb = ("null", "int()")
        step = None
        ks = r.random()
        if ks < 0.35:
            step = r.choice([("int", 1), ("int", 2), ("int", 3), ("int", 0), ("int", -1), ("null", "int()"), ("int", IMAX), ("int", 1 << 62)])
            if (fa[0] != "int" or fb[0] != "int") and step[0] == "int" and step[1] < 1:
                # a possibly null bound together with a step below 1: the manual gives no precedence between "zero iterations" and OUT_OF_RANGE
                step = ("int", 2)
        direction = r.choice([None, None, "asc", "desc"])
        sc2 = dict(sc); sc2["active"] = sc["active"] + [var]; sc2["ints"] = sc["ints"] + [var]
        sc2["nowrite"] = sc.get("nowrite", []) + [var]
        body = self.body(sc2, depth + 1, r.randint(1, 3), True)
        if r.random() < 0.3 and fa[0] == "int" and fb[0] == "int" and a != b and abs(a) < 1000 and abs(b) < 1000:
            # the body moves the control variable forward (in the direction of the progression): values are skipped
            down = (a > b) if direction is None else (direction == "desc")
            body.insert(r.randrange(len(body) + 1), ("assign", var, ("bin", "-" if down else "+", ("var", var), ("int", r.choice([1, 1, 2])))))
        return ("for", var, fa, fb, step, direction, body)

    def forall_stmt(self, sc, depth):
        r = self.r
        free = [v for v in sc["iters"] if v not in sc["active"]]
        tabs = [t for t in sc["tabs"]]
        if not free or not tabs: return self.print_stmt(sc)
        var = r.choice(free); t = r.choice(tabs)
        sc2 = dict(sc); sc2["active"] = sc["active"] + [var]; sc2["ints"] = sc["ints"] + [var]
        sc2["locked"] = sc["locked"] + [t]
        sc2["iter_of"] = dict(sc.get("iter_of", {})); sc2["iter_of"][var] = t
        if t in sc["locked"]:
            # nested traversal of a table that is already being traversed: everything pointing into it is read-only inside
            ro = [v for v, tt in sc2["iter_of"].items() if tt == t]
            sc2["nowrite"] = sc.get("nowrite", []) + ro
            body = self.body(sc2, depth + 1, r.randint(1, 2), True)
        else:
            sc2["nowrite"] = sc.get("nowrite", [])
            body = self.body(sc2, depth + 1, r.randint(1, 3), True)
            if r.random() < 0.4:
                body.insert(r.randrange(len(body) + 1), ("assign", var, ("bin", "+", ("var", var), ("int", r.choice([1, 10])))))
        return ("forall", var, t, r.choice([None, None, "asc", "desc"]), body)

    def while_stmt(self, sc, depth):
        r = self.r
        # bounded by a dedicated counter compared with a small constant
        ctr = r.choice(sc["ints"]) if sc["ints"] else None
        if ctr is None or ctr in sc["active"]: return self.print_stmt(sc)
        lim = r.randint(1, 4)
        if ctr in sc.get("nowrite", []): return self.print_stmt(sc)
        sc2 = dict(sc); sc2["nowrite"] = sc.get("nowrite", []) + [ctr]      # the body must not write the counter elsewhere
        body = self.body(sc2, depth + 1, r.randint(1, 3), True)
        # increment first when a continue may skip the tail
        body.insert(0, ("assign", ctr, ("bin", "+", ("var", ctr), ("int", 1))))
        pre = ("assign", ctr, ("int", 0))
        loop = ("while", ("bin", "and", ("bin", "<", ("var", ctr), ("int", lim)), self.bool_expr(sc) if r.random() < 0.3 else ("bool", True)), body)
        return ("begin", [pre, loop], [])

    def begin_stmt(self, sc, depth, in_loop):
        r = self.r
        scb = dict(sc); scb["in_begin"] = True
        body = self.body(scb, depth + 1, r.randint(1, 3), in_loop)
        if r.random() < 0.6:
            body.insert(r.randrange(len(body) + 1), r.choice([("raise", r.choice(self.user_errors)), ("assign", self.wint(sc), ("bin", "/", ("int", 1), ("int", 0))),
                                                              ("raise", "out_of_range"), ("assign", self.wint(sc), ("strlen", ("chr", ("int", 300))))]))
        names = r.sample(self.user_errors + ["divide_by_zero", "out_of_range", "others", "nomatch"], r.randint(0, 3))
        if "others" in names:
            names.remove("others"); names.append("others")
        handlers = []
        for nme in names:
            hb = [("print", self.mk(), [("errname",)])] if r.random() < 0.7 else []
            hb += self.body(sc, depth + 1, r.randint(0, 2), in_loop)
            if not hb: hb = [("nop",)]
            handlers.append((nme, hb))
        return ("begin", body, handlers)

    # ---- functions -------------------------------------------------------------------------
    def gen_function(self, order):
        r = self.r
        np_ = r.randint(0, 3)
        ptypes = [r.choice(["int", "int", "bool", "str", "tab"] if self.focus == "functions" else ["int", "int", "bool", "str"]) for _ in range(np_)]
        params = ["x%d" % i for i in range(np_)]
        name = "fn%d" % order
        if self.focus == "functions" and self.funcs and r.random() < 0.3:
            # overload of an earlier function: same name, another number of parameters
            prev = r.choice(self.funcs)
            if all(not (g["name"] == prev["name"] and len(g["params"]) == np_) for g in self.funcs):
                name = prev["name"]
        f = {"name": name, "params": params, "ptypes": ptypes, "ret": "int", "order": order, "body": []}
        pints = [p for p, t in zip(params, ptypes) if t == "int"]; pbools = [p for p, t in zip(params, ptypes) if t == "bool"]; pstrs = [p for p, t in zip(params, ptypes) if t == "str"]
        psc = {"ints": pints, "bools": pbools, "strs": pstrs, "tabs": [], "loopv": ["li", "lj"], "iters": [], "active": [], "locked": []}
        self.in_func = f
        body = []
        # conditionally assigned locals (the interesting C08 shape): assigned only when the condition on the parameters holds,
        # read unconditionally afterwards -> must be null (unset) whenever the branch was not taken in *this* call
        locs = []
        asg = []
        if r.random() < 0.85:
            asg.append(("assign", "la", self.int_expr(psc, 1))); locs.append(("la", "int"))
        if r.random() < 0.5:
            asg.append(("assign", "lp", self.bool_expr(psc, 1))); locs.append(("lp", "bool"))
        if r.random() < 0.4:
            asg.append(("assign", "ls", self.str_expr(psc, 1))); locs.append(("ls", "str"))
        if asg:
            body.append(("if", [(self.bool_expr(psc), asg)], None))
            body.append(("print", self.mk(), [("var", n) if t != "int" or r.random() < 0.5 else ("isnull", ("var", n)) for n, t in locs]))
        sc = {"ints": pints + [n for n, t in locs if t == "int"], "bools": pbools + [n for n, t in locs if t == "bool"], "strs": pstrs + [n for n, t in locs if t == "str"],
              "tabs": [], "loopv": ["li", "lj"], "iters": [], "active": [], "locked": []}
        ptabs = [p for p, t in zip(params, ptypes) if t == "tab"]
        if self.focus == "functions":
            # the callee works on its own copies: names of the caller's variables are plain locals here, table parameters are copies
            if r.random() < 0.6:
                g = r.choice(["a", "b", "c"]); body.append(("assign", g, self.int_expr(psc, 1))); sc["ints"].append(g)
            if r.random() < 0.3:
                body.append(("assign", "s", ("str", "callee"))); sc["strs"].append("s")
            for pt in ptabs:
                body.append(("concat", pt, ("int", r.choice([7, 8]))))
                if r.random() < 0.5:
                    body.append(("print", self.mk(), [("count", pt)]))
            sc["tabs"] = list(ptabs)
        body += self.body(sc, 1, r.randint(1, 4))
        body.append(("return", self.int_expr(sc)))
        f["body"] = body
        self.in_func = None
        return f

    def program(self, nstmts=None):
        r = self.r
        nf = self.nfuncs if self.nfuncs is not None else (r.randint(0, 2) if self.focus != "functions" else r.randint(1, 3))
        for i in range(nf):
            self.funcs.append(self.gen_function(i))
        if self.focus == "errors":
            # opaque parameter: the type error of tmul("x") is only found at run time and is not catchable
            self.funcs.append({"name": "tmul", "params": ["z"], "ptypes": [None], "ret": "int", "order": 99, "body": [("return", ("bin", "*", ("var", "z"), ("int", 2)))]})
        sc = {"ints": list(self.INTS), "bools": list(self.BOOLS), "strs": list(self.STRS), "tabs": list(self.TABS), "loopv": list(self.LOOPV), "iters": list(self.ITERV), "active": [], "locked": []}
        init = [("assign", "a", ("int", r.choice([0, 1, 3]))), ("assign", "b", ("int", r.choice([2, -1, 5]))), ("assign", "c", ("int", 0)), ("assign", "d", ("null", "int()")),
                ("assign", "p", ("bool", True)), ("assign", "q", ("null", "bool()")), ("assign", "s", ("str", "ab")), ("assign", "u", ("str", "")),
                ("assign", "t", ("tab", ("int", r.choice([0, 1, 3])), ("int", r.choice([1, 4])))), ("assign", "w", ("tab", ("int", 2), ("int", 0)))]
        body = self.body(sc, 0, nstmts if nstmts is not None else r.randint(3, 8))
        tail = [("print", self.mk(), [("var", "a"), ("var", "b"), ("var", "c"), ("var", "p"), ("var", "s"), ("count", "t"), ("count", "w")])]
        return self.funcs, init + body + tail


def probe_program(rnd, funcs, focus="functions", nstmts=None):
    """a valid program over the standard global names that uses (but does not define) the given functions"""
    g = Gen(rnd, focus, nfuncs=0)
    g.funcs = list(funcs)
    g.marker = 5000
    sc = {"ints": list(g.INTS), "bools": list(g.BOOLS), "strs": list(g.STRS), "tabs": list(g.TABS), "loopv": list(g.LOOPV), "iters": list(g.ITERV), "active": [], "locked": []}
    body = g.body(sc, 0, nstmts if nstmts is not None else rnd.randint(2, 6))
    for f in funcs:
        if f["name"] != "tmul" and rnd.random() < 0.8:
            body.append(("begin", [("assign", "c", ("call", f["name"], [g.arg_of(t, sc) for t in f["ptypes"]])), ("print", g.mk(), [("var", "c")])], [("others", [("print", g.mk(), [("errname",)])])]))
    body.append(("print", g.mk(), [("var", "a"), ("var", "b"), ("var", "c"), ("var", "p"), ("var", "s"), ("count", "t"), ("count", "w")]))
    return body


def bounded(funcs, prog, maxsteps=4000):
    """run the reference interpreter; returns (interp, outcome) or None when the program exceeds the step bound"""
    it = Interp(funcs, maxsteps)
    try:
        oc = it.run(prog)
    except Limit:
        return None
    except RecursionError:
        return None
    return it, oc
