"""Core of the /verif runtime-monitoring framework: builds, worker processes, crash attribution,
signatures, known findings, evidence and the exit-code contract.

A *check* is a python module in py/props/ exposing
    PROPERTY = "Cxx"
    def plan(tier, seed) -> list of shard descriptors (picklable)
    def run_shard(desc) -> ShardResult dict
    RULE = "..."  (non-triviality rule), LEVEL, ASSUMPTIONS
Shards run in a multiprocessing pool; every shard drives its own vprobe worker.
"""
import os, sys, json, time, subprocess, hashlib, re, resource, tempfile, random, traceback, signal
import multiprocessing as mp

VERIF = os.path.dirname(os.path.dirname(os.path.abspath(__file__)))
REPO = os.environ.get("VERIF_REPO", "/repo")

# ----------------------------------------------------------------------------------------------
# builds

_build_cache = {}

def build(flavor="asan"):
    if flavor in _build_cache:
        return _build_cache[flavor]
    p = subprocess.run([os.path.join(VERIF, "bin/build.sh"), flavor], stdout=subprocess.PIPE, stderr=subprocess.PIPE, text=True)
    if p.returncode != 0:
        sys.stderr.write(p.stderr)
        raise HarnessFailure("build of flavor %s failed" % flavor)
    d = p.stdout.strip().splitlines()[-1]
    _build_cache[flavor] = d
    return d


class HarnessFailure(Exception):
    pass

# ----------------------------------------------------------------------------------------------
# hex / value codec (mirror of harness/vcommon.h)

def hx(s):
    if isinstance(s, str):
        s = s.encode("latin-1") if all(ord(c) < 256 for c in s) else s.encode("utf-8")
    return s.hex() if s else "-"

def unhx(h):
    return b"" if h == "-" or h == "" else bytes.fromhex(h)


class VParse:
    """Parses the harness' value serialisation into python structures:
       ('null', type) | ('b',bool) | ('i',int) | ('n',bits:int) | ('s',bytes) | ('x',bytes) | ('m',a,b)
       | ('o',minor,ptr) | ('p',inner) | ('r',decl,[items],flag) | ('t',type,decl,[items],flag)"""
    def __init__(self, s):
        self.s = s; self.p = 0

    def peek(self):
        return self.s[self.p] if self.p < len(self.s) else ""

    def get(self):
        c = self.s[self.p]; self.p += 1; return c

    def number(self):
        b = self.p
        while self.peek().isdigit():
            self.p += 1
        return int(self.s[b:self.p])

    def type(self):
        m = self.get(); lvl = self.number(); minor = 0
        if self.peek() == "#":
            self.get(); minor = self.number()
        return (m, lvl, minor)

    def decl(self):
        assert self.get() == "{"
        d = []
        if self.peek() == "}":
            self.get(); return tuple(d)
        while True:
            d.append(self.type())
            c = self.get()
            if c == "}":
                break
            assert c == ","
        return tuple(d)

    def hexrun(self):
        b = self.p
        while self.peek() in "0123456789abcdef" and self.peek() != "":
            self.p += 1
        return bytes.fromhex(self.s[b:self.p])

    def flag(self):
        if self.s.startswith("!VT=", self.p):
            self.p += 4
            return self.type()
        return None

    def value(self):
        c = self.get()
        if c == "Z":
            return ("null", self.type())
        if c == "D":  # DEEP
            self.p += 3
            return ("deep",)
        if c == "u":
            self.p += 2
            return ("u",)
        if c == "b":
            self.get(); return ("b", self.get() == "1")
        if c == "i":
            self.get(); b = self.p
            if self.peek() == "-":
                self.p += 1
            while self.peek().isdigit():
                self.p += 1
            return ("i", int(self.s[b:self.p]))
        if c == "n":
            self.get(); h = self.s[self.p:self.p + 16]; self.p += 16
            return ("n", int(h, 16))
        if c == "s":
            self.get(); return ("s", self.hexrun())
        if c == "x":
            self.get(); return ("x", self.hexrun())
        if c == "m":
            self.get(); a = self.s[self.p:self.p + 16]; b = self.s[self.p + 16:self.p + 32]; self.p += 32
            return ("m", int(a, 16), int(b, 16))
        if c == "o":
            assert self.get() == "#"; minor = self.number(); assert self.get() == ":"
            h = self.s[self.p:self.p + 16]; self.p += 16
            return ("o", minor, int(h, 16))
        if c == "p":
            assert self.get() == "("
            inner = None
            if self.peek() != ")":
                inner = self.value()
            assert self.get() == ")"
            return ("p", inner)
        if c == "r":
            d = self.decl(); fl = self.flag()
            assert self.get() == "("
            items = []
            if self.peek() == ")":
                self.get()
            else:
                while True:
                    items.append(self.value())
                    ch = self.get()
                    if ch == ")":
                        break
                    assert ch == ","
            return ("r", d, items, fl)
        if c == "t":
            t = self.type(); d = None
            if self.peek() == "{":
                d = self.decl()
            fl = self.flag()
            assert self.get() == "["
            items = []
            if self.peek() == "]":
                self.get()
            else:
                while True:
                    items.append(self.value())
                    ch = self.get()
                    if ch == "]":
                        break
                    assert ch == ","
            return ("t", t, d, items, fl)
        raise ValueError("bad value tag %r in %r" % (c, self.s))


def parse_value(s):
    vp = VParse(s)
    v = vp.value()
    if vp.p != len(s):
        raise ValueError("trailing data in value %r" % s)
    return v


def vtype(v):
    """(major char, level) of a parsed value"""
    k = v[0]
    if k == "null":
        return (v[1][0], v[1][1])
    if k == "t":
        return (v[1][0], v[1][1])
    if k == "r":
        return ("r", 0)
    if k == "u":
        return ("u", 0)
    return (k, 0)


def enc_int(i):
    return "i:%d" % i

def enc_num_bits(bits):
    return "n:%016x" % bits

def enc_str(b):
    return "s:" + (b.hex() if b else "")

def enc_bytes(b):
    return "x:" + (b.hex() if b else "")

def enc_bool(b):
    return "b:1" if b else "b:0"

def enc_null(t="u0"):
    return "Z" + t

import struct
def d2bits(d):
    return struct.unpack("<Q", struct.pack("<d", d))[0]

def bits2d(b):
    return struct.unpack("<d", struct.pack("<Q", b))[0]

# ----------------------------------------------------------------------------------------------
# sanitizer report -> signature

_FRAME = re.compile(r"^\s*#(\d+) 0x[0-9a-f]+ in (.+?) (/[^\s:]+)(?::(\d+))?")
_FRAME2 = re.compile(r"^\s*#(\d+) 0x[0-9a-f]+ in (\S+)")

def _fn(name):
    # strip argument lists and template noise
    name = re.sub(r"\(.*$", "", name)
    name = re.sub(r"<.*>", "<>", name)
    return name.strip()

def report_signature(stderr_text, repo=REPO):
    """(kind, [in-repo frames]) of the first sanitizer/terminate report in the text, or None."""
    lines = stderr_text.splitlines()
    kind = None; start = 0
    for i, l in enumerate(lines):
        m = re.search(r"ERROR: (AddressSanitizer|LeakSanitizer|ThreadSanitizer): ([A-Za-z0-9_-]+)", l)
        if m:
            kind = m.group(2)
            if kind == "SEGV" or kind == "FPE" or kind == "ABRT":
                pass
            start = i; break
        m = re.search(r"runtime error: (.*)$", l)
        if m:
            msg = m.group(1)
            msg = re.sub(r"-?\d[\d.e+x-]*", "N", msg)
            msg = re.sub(r"'[^']*'", "T", msg)
            kind = "UB:" + msg[:60]
            start = i; break
        m = re.search(r"terminate called: (.*)$", l)
        if m:
            kind = "terminate:" + m.group(1).split(":")[0]
            start = i; break
        if "terminate called" in l:
            kind = "terminate"; start = i; break
    if kind is None:
        return None
    frames = []
    for l in lines[start:start + 80]:
        m = _FRAME.match(l)
        if m:
            path = m.group(3)
            if "/blocc/" in path or "/modules/" in path or "/apps/" in path or path.startswith(repo):
                if "/harness/" in path:
                    continue
                fn = _fn(m.group(2))
                if fn not in frames:
                    frames.append(fn)
                if len(frames) >= 2:
                    break
        elif frames and l.strip() == "":
            break
    # UBSan prints "file:line:col: runtime error" with the location first
    if not frames:
        for l in lines[start:start + 3]:
            m = re.match(r"^(/\S+?):(\d+):(\d+): runtime error", l)
            if m:
                frames.append(os.path.basename(m.group(1)))
    return kind, frames

def sig_of_report(stderr_text):
    r = report_signature(stderr_text)
    if r is None:
        return None
    kind, frames = r
    return "|".join([kind] + frames)

# ----------------------------------------------------------------------------------------------
# worker

def _preexec():
    try:
        resource.setrlimit(resource.RLIMIT_STACK, (1 << 30, 1 << 30))
    except Exception:
        pass
    resource.setrlimit(resource.RLIMIT_CORE, (0, 0))
    os.setsid()

ASAN_OPTS = ("abort_on_error=1:halt_on_error=1:detect_leaks=0:allocator_may_return_null=0:"
             "max_allocation_size_mb=256:detect_stack_use_after_return=0:quarantine_size_mb=16:"
             "handle_abort=0:symbolize=1")
UBSAN_OPTS = "print_stacktrace=1:halt_on_error=1:abort_on_error=1"


class CaseResult:
    __slots__ = ("replies", "crashed", "report", "sig", "timeout")
    def __init__(self):
        self.replies = []; self.crashed = False; self.report = ""; self.sig = None; self.timeout = False


class Probe:
    """One vprobe child.  case(ops) sends BEGIN/ops/END and collects the replies; if the child dies
    the sanitizer report is read from its stderr file and the child is restarted for the next case."""
    def __init__(self, flavor="asan", binary="vprobe", modules=False, extra_env=None, leaks=False, timeout=60, cwd=None):
        self.bdir = build(flavor)
        self.binary = os.path.join(self.bdir, "harness", binary)
        self.modules = modules
        self.extra_env = extra_env or {}
        self.leaks = leaks
        self.timeout = timeout
        self.cwd = cwd
        self.proc = None
        self.errf = None
        self.ncase = 0
        self.restarts = 0
        self._rbuf = b""

    def _start(self):
        env = dict(os.environ)
        opts = ASAN_OPTS
        if self.leaks:
            opts = opts.replace("detect_leaks=0", "detect_leaks=1")
        env["ASAN_OPTIONS"] = opts
        env["UBSAN_OPTIONS"] = UBSAN_OPTS
        env["LD_LIBRARY_PATH"] = os.path.join(self.bdir, "modlib" if self.modules else "libonly")
        env.update(self.extra_env)
        self.errf = tempfile.TemporaryFile(prefix="vprobe_err_")
        self.proc = subprocess.Popen([self.binary], stdin=subprocess.PIPE, stdout=subprocess.PIPE, stderr=self.errf,
                                     env=env, preexec_fn=_preexec, bufsize=0, cwd=self.cwd)
        self._rbuf = b""
        self.restarts += 1

    def close(self):
        if self.proc:
            try:
                os.set_blocking(self.proc.stdin.fileno(), True)
                self.proc.stdin.write(b"QUIT\n"); self.proc.stdin.close()
                self.proc.wait(timeout=20)
            except Exception:
                self._kill()
            self.proc = None
        if self.errf:
            self.errf.close(); self.errf = None

    def _kill(self):
        try:
            os.killpg(self.proc.pid, signal.SIGKILL)
        except Exception:
            pass
        try:
            self.proc.wait(timeout=5)
        except Exception:
            pass

    def _stderr(self):
        self.errf.flush(); self.errf.seek(0)
        return self.errf.read().decode("utf-8", "replace")

    def case(self, ops, caseid=None):
        if self.proc is None or self.proc.poll() is not None:
            if self.proc is not None:
                self.close()
            self._start()
        self.ncase += 1
        cid = caseid or str(self.ncase)
        res = CaseResult()
        data = ("BEGIN %s\n" % cid + "\n".join(ops) + "\nEND\n").encode("latin-1")
        done = ("DONE %s" % cid).encode()
        # interleaved non-blocking write/read (both pipes are 64 KiB: a blocking write would deadlock).
        # wall-clock watchdog: its firing is *inconclusive*, never a violation
        import select
        wfd = self.proc.stdin.fileno(); rfd = self.proc.stdout.fileno()
        os.set_blocking(wfd, False); os.set_blocking(rfd, False)
        wpos = 0; buf = self._rbuf
        self._rbuf = b""
        eof = False
        last = time.monotonic()
        while not eof:
            wl = [wfd] if wpos < len(data) else []
            r, w, _ = select.select([rfd], wl, [], 5.0)
            if not r and not w:
                if time.monotonic() - last > self.timeout:
                    res.timeout = True
                    self._kill(); self.close()
                    return res
                continue
            last = time.monotonic()
            if w:
                try:
                    wpos += os.write(wfd, data[wpos:wpos + 65536])
                except BlockingIOError:
                    pass
                except BrokenPipeError:
                    wpos = len(data)
            if r:
                try:
                    chunk = os.read(rfd, 1 << 16)
                except BlockingIOError:
                    chunk = None
                if chunk == b"":
                    eof = True
                elif chunk:
                    buf += chunk
                    while True:
                        nl = buf.find(b"\n")
                        if nl < 0:
                            break
                        line = buf[:nl]; buf = buf[nl + 1:]
                        if line == done:
                            self._rbuf = buf
                            return res
                        if line.startswith(b"R "):
                            res.replies.append(line[2:].decode("latin-1"))
        # EOF without DONE: the child died
        try:
            self.proc.wait(timeout=30)
        except Exception:
            self._kill()
        res.crashed = True
        res.report = self._stderr()
        res.sig = sig_of_report(res.report)
        if res.sig is None:
            rc = self.proc.returncode
            if rc == 3:
                # the harness itself gave up (descriptor/memory exhaustion in the worker: perror + exit(3) in vcommon.h): never a verdict on BLOC
                self.close()
                raise HarnessFailure("vprobe exited with status 3 (resource exhaustion in the harness): %s" % res.report[-300:])
            res.sig = "died:rc=%s" % rc
        self.close()
        return res


def rfields(reply):
    """'ok out=.. steps=3' -> ('ok', ['positional'...], {'out':..})"""
    parts = reply.split(" ")
    head = parts[0]; pos = []; kw = {}
    for p in parts[1:]:
        if "=" in p and not p.startswith("V:") and not p.startswith("F:"):
            k, v = p.split("=", 1)
            if k in kw:
                if not isinstance(kw[k], list):
                    kw[k] = [kw[k]]
                kw[k].append(v)
            else:
                kw[k] = v
        else:
            pos.append(p)
    return head, pos, kw


def parse_dump(reply):
    head, pos, kw = rfields(reply)
    assert head == "dump", reply
    syms = {}; order = []; fns = {}
    for p in pos:
        if p.startswith("V:"):
            _, name, st, fl, val = p.split(":", 4)
            nm = unhx(name).decode("latin-1")
            syms[nm] = {"type": st, "flags": fl, "value": val}
            order.append(nm)
        elif p.startswith("F:"):
            _, name, npar, ps, ret, body, nc = p.split(":", 6)
            fns[(unhx(name).decode("latin-1"), int(npar))] = {"params": ps, "ret": ret, "body": body, "cached": int(nc)}
    return {"kw": kw, "syms": syms, "order": order, "fns": fns}

# ----------------------------------------------------------------------------------------------
# known findings

def load_known():
    p = os.path.join(VERIF, "known_findings.json")
    if not os.path.exists(p):
        return []
    return json.load(open(p))

def known_match(prop, sig, known):
    for k in known:
        if k.get("status") == "known" and k.get("property") == prop:
            pat = k.get("signature")
            if pat == sig or (k.get("signature_regex") and re.fullmatch(k["signature_regex"], sig)):
                return k
    return None

# ----------------------------------------------------------------------------------------------
# check driver

def case_hash(obj):
    return hashlib.sha1(json.dumps(obj, sort_keys=True, default=str).encode()).hexdigest()[:16]


def new_result():
    return {"evaluations": 0, "nontrivial": set(), "violations": [], "samples": [], "counters": {},
            "inconclusive": 0, "out_of_domain": 0, "known_skipped": 0}


def bump(res, key, n=1):
    res["counters"][key] = res["counters"].get(key, 0) + n


_EXHAUSTION = re.compile(r"crash:(requested|allocation-size-too-big|out-of-memory)|bad_alloc")

def add_violation(res, sig, what, witness, keep_exhaustion=False):
    # memory exhaustion (ASan: requested allocation size exceeds the maximum, out-of-memory; std::bad_alloc) of a program
    # that legitimately grows its data is outside every property's domain: counted, never reported.  Checks whose
    # workloads cannot legitimately need much memory (C01 with small magnitudes, C18) pass keep_exhaustion=True.
    if not keep_exhaustion and _EXHAUSTION.search(sig):
        res["out_of_domain"] += 1; bump(res, "memory_exhaustion_out_of_domain"); return
    if len([v for v in res["violations"] if v["sig"] == sig]) < 3:
        res["violations"].append({"sig": sig, "what": what, "witness": witness})
    else:
        bump(res, "violations_more:" + sig)


def _shard_entry(args):
    modname, desc = args
    sys.path.insert(0, os.path.join(VERIF, "py"))
    mod = __import__("props." + modname, fromlist=["x"])
    try:
        r = mod.run_shard(desc)
        r["nontrivial"] = list(r["nontrivial"])
        return r
    except HarnessFailure as e:
        return {"harness_failure": str(e)}
    except Exception:
        return {"harness_failure": traceback.format_exc()}


def run_check(modname, tier, seed, replay=None, jobs=None):
    sys.path.insert(0, os.path.join(VERIF, "py"))
    mod = __import__("props." + modname, fromlist=["x"])
    prop = mod.PROPERTY
    t0 = time.monotonic()
    try:
        for fl in getattr(mod, "FLAVORS", ["asan"]):
            build(fl)
    except HarnessFailure as e:
        print("HARNESS-FAILURE: %s" % e)
        return 2
    if replay:
        return mod.replay(json.load(open(replay)))
    shards = mod.plan(tier, seed)
    jobs = jobs or int(os.environ.get("VERIF_JOBS", "16"))
    if len(shards) == 1 or jobs == 1:
        results = [_shard_entry((modname, s)) for s in shards]
    else:
        # a worker that dies (OOM, segfault) must not hang the run: BrokenProcessPool -> harness failure
        import concurrent.futures as cf
        results = []
        try:
            with cf.ProcessPoolExecutor(max_workers=min(jobs, len(shards))) as ex:
                for r in ex.map(_shard_entry, [(modname, s) for s in shards]):
                    results.append(r)
        except cf.process.BrokenProcessPool as e:
            print("HARNESS-FAILURE: a shard process died (%s)" % e)
            return 2
    agg = new_result()
    failures = []
    for r in results:
        if "harness_failure" in r:
            failures.append(r["harness_failure"]); continue
        agg["evaluations"] += r["evaluations"]
        agg["nontrivial"].update(r["nontrivial"])
        agg["nontrivial_count"] = agg.get("nontrivial_count", 0) + r.get("nontrivial_count", 0)
        agg["violations"].extend(r["violations"])
        for s in r["samples"]:
            if len(agg["samples"]) < 8:
                agg["samples"].append(s)
        for k, v in r["counters"].items():
            agg["counters"][k] = agg["counters"].get(k, 0) + v
        agg["inconclusive"] += r["inconclusive"]
        agg["out_of_domain"] += r["out_of_domain"]
        agg["known_skipped"] += r.get("known_skipped", 0)
    known = load_known()
    # group violations by signature
    bysig = {}
    for v in agg["violations"]:
        bysig.setdefault(v["sig"], []).append(v)
    new = []; hit = []
    for sig, vs in sorted(bysig.items()):
        k = known_match(prop, sig, known)
        if k:
            hit.append((sig, k, vs))
        else:
            new.append((sig, vs))
    # one line per *listed* finding (a signature_regex family may be hit through many signatures)
    seen_known = {}
    for sig, k, vs in hit:
        seen_known.setdefault(id(k), (k, []))[1].append(sig)
    for k, sigs in seen_known.values():
        label = sigs[0] if len(sigs) == 1 else "%s (+%d more signatures of this family)" % (sigs[0], len(sigs) - 1)
        print("KNOWN-FINDING: property=%s %s [%s]" % (prop, k.get("what", ""), label))
    OUT = os.environ.get("VERIF_OUT") or VERIF   # experiments against seeded changes write their evidence/replays elsewhere
    rdir = os.path.join(OUT, "replays", prop)
    for sig, vs in new:
        os.makedirs(rdir, exist_ok=True)
        h = hashlib.sha1(sig.encode()).hexdigest()[:12]
        path = os.path.join(rdir, h + ".json")
        with open(path, "w") as f:
            json.dump({"property": prop, "signature": sig, "what": vs[0]["what"], "seed": seed, "tier": tier,
                       "module": modname, "witness": vs[0]["witness"], "count": len(vs)}, f, indent=1, default=str)
        print("VIOLATION property=%s replay=%s" % (prop, path))
        print("  signature: %s" % sig)
        print("  what: %s" % vs[0]["what"][:400])
    wall = time.monotonic() - t0
    ev = {
        "property_id": prop, "tier": tier, "seed": seed, "level": getattr(mod, "LEVEL", "exploration"),
        "coverage": {
            "evaluations": agg["evaluations"],
            "distinct_nontrivial": len(agg["nontrivial"]) + agg.get("nontrivial_count", 0),
            "rule": mod.RULE,
            "samples": agg["samples"],
            "inconclusive": agg["inconclusive"],
            "out_of_domain": agg["out_of_domain"],
            "known_findings_hit": [s for s, _, _ in hit],
            "known_findings_skipped": agg["known_skipped"],
            "monitor_counters": dict(sorted(agg["counters"].items())),
            "shards": len(shards),
        },
        "assumptions": getattr(mod, "ASSUMPTIONS", []),
        "wall_s": round(wall, 2),
        "violations": len(new),
    }
    if getattr(mod, "EXHAUSTIVE", False):
        ev["coverage"]["exhaustive"] = bool(mod.EXHAUSTIVE if not callable(mod.EXHAUSTIVE) else mod.EXHAUSTIVE(tier))
    extra = getattr(mod, "evidence_extra", None)
    if extra:
        ev["coverage"].update(extra(agg, tier))
    os.makedirs(os.path.join(OUT, "evidence"), exist_ok=True)
    with open(os.path.join(OUT, "evidence", prop + ".json"), "w") as f:
        json.dump(ev, f, indent=1, default=str)
    print("%s tier=%s seed=%d: %d evaluations, %d distinct non-trivial, %d inconclusive, %d out-of-domain, %d known, %d NEW violations, %.1fs"
          % (prop, tier, seed, agg["evaluations"], len(agg["nontrivial"]) + agg.get("nontrivial_count", 0), agg["inconclusive"], agg["out_of_domain"], len(hit), len(new), wall))
    for k, v in sorted(agg["counters"].items()):
        print("   %-40s %d" % (k, v))
    if failures:
        print("HARNESS-FAILURE: %d shard(s) failed:\n%s" % (len(failures), failures[0][-2000:]))
        return 2
    if new:
        return 1
    if agg["evaluations"] == 0 or len(agg["nontrivial"]) + agg.get("nontrivial_count", 0) < 2:
        print("HARNESS-FAILURE: nothing observed")
        return 2
    cap = getattr(mod, "INCONCLUSIVE_CAP", 0.02)
    if agg["inconclusive"] > cap * max(1, agg["evaluations"]):
        print("HARNESS-FAILURE: inconclusive fraction above cap (%d of %d)" % (agg["inconclusive"], agg["evaluations"]))
        return 2
    return 0


def generic_replay(wit, flavor="asan", modules=False):
    """Re-run the recorded ops in a fresh worker and print what happens."""
    p = Probe(flavor, modules=modules)
    r = p.case(wit["witness"]["ops"])
    for op, rep in zip(wit["witness"]["ops"], r.replies + ["<no reply>"] * len(wit["witness"]["ops"])):
        print("  %s\n    -> %s" % (op[:200], rep[:300]))
    if r.crashed:
        print("CRASH signature=%s" % r.sig)
        print(r.report[:6000])
    p.close()
    return r


# ----------------------------------------------------------------------------------------------
# unit runner: many small units (ops + oracle) inside one case; a crash is attributed to the unit
# whose replies stopped, recorded, and the remaining units continue in a fresh worker.

class Unit:
    __slots__ = ("ops", "check", "desc")
    def __init__(self, ops, check, desc):
        self.ops = ops; self.check = check; self.desc = desc


CRASH_BUDGET = 24

class StopShard(Exception):
    pass


def run_units(probe, prelude, units, res, on_crash, chunk=200):
    """prelude: ops re-sent at the start of every case.  units: list of Unit.
       check(replies) is called with exactly the unit's replies.  on_crash(unit, CaseResult).
       After CRASH_BUDGET crashes the remaining units are skipped (counted): a tree that crashes that
       often is reported through the violations already recorded, not explored to the end."""
    i = 0
    n = len(units)
    npre = len(prelude)
    while i < n:
        batch = units[i:i + chunk]
        ops = list(prelude)
        for u in batch:
            ops.extend(u.ops)
        r = probe.case(ops)
        if r.timeout:
            # re-run once unit by unit to find the culprit; a repeated timeout is inconclusive
            for u in batch:
                r1 = probe.case(list(prelude) + u.ops)
                if r1.timeout:
                    res["inconclusive"] += 1; bump(res, "timeouts")
                elif r1.crashed:
                    on_crash(u, r1)
                else:
                    u.check(r1.replies[npre:])
            i += len(batch)
            continue
        got = r.replies[npre:]
        pos = 0
        k = 0
        for u in batch:
            need = len(u.ops)
            if pos + need <= len(got):
                u.check(got[pos:pos + need]); pos += need; k += 1
            else:
                break
        if r.crashed:
            bump(res, "worker_crashes")
            if res["counters"]["worker_crashes"] > CRASH_BUDGET:
                bump(res, "units_skipped_after_crash_budget", n - i - k)
                if k < len(batch):
                    on_crash(batch[k], r)
                return
            if k < len(batch):
                on_crash(batch[k], r)
                k += 1
            else:
                # died during END/reset: attribute to the batch as a whole
                on_crash(Unit([o for u in batch for o in u.ops][:50], None, "teardown of batch starting with " + str(batch[0].desc)), r)
        elif k < len(batch):
            raise HarnessFailure("protocol desync: %d replies for batch" % len(got))
        i += k


_errnos = {}
def errnos(probe):
    if not _errnos:
        r = probe.case(["errnos"])
        head, pos, kw = rfields(r.replies[0])
        for k, v in kw.items():
            _errnos[k] = int(v)
    return _errnos
