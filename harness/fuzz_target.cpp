// libFuzzer entry for C01 (thorough tier): any byte string given to an UNTRUSTED context as a program
// must end in completed / ParseError / RuntimeError.  Built with clang (fuzz flavour); every artifact
// libFuzzer leaves is re-run and classified by the python side through vprobe (gcc ASan+UBSan build).
#include "vcommon.h"
#include <fcntl.h>

using namespace bloc;

static long g_steps = 0;
static Context * g_root = nullptr;

static void step_hook(Context&, const Statement *)
{
  if (++g_steps > 3000 && g_root) g_root->returnCondition(true);
}

static int g_null = -1;

extern "C" int LLVMFuzzerInitialize(int *, char ***)
{
  verif_set_step(step_hook);
  g_null = open("/dev/null", O_WRONLY);
  // readers (input, read, readln) see end of file at once
  int in = open("/dev/null", O_RDONLY);
  if (in >= 0) { dup2(in, 0); close(in); }
  return 0;
}

extern "C" int LLVMFuzzerTestOneInput(const uint8_t * data, size_t size)
{
  std::string text(reinterpret_cast<const char*>(data), size);
  // statements that touch the file system or the environment are not part of the fuzzed domain
  static const char * skip[] = { "include", "import", "getenv", "getsys", nullptr };
  std::string low(text);
  for (auto& c : low) c = (char)tolower((unsigned char)c);
  for (int i = 0; skip[i]; ++i) if (low.find(skip[i]) != std::string::npos) return 0;
  Context ctx(g_null, g_null);
  g_steps = 0; g_root = &ctx;
  Executable * x = nullptr;
  try
  {
    StringReader r(text);
    x = Parser::parse(ctx, r);
    try { x->run(); }
    catch (RuntimeError&) { }
  }
  catch (ParseError&) { }
  g_root = nullptr;
  delete x;
  return 0;
}
