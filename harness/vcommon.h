// Shared helpers of the /verif harness binaries: value (de)serialisation, hex, output capture.
// Only the public embedding API of libblocc plus the BLOC_VERIF read-only hooks are used.
#ifndef VCOMMON_H
#define VCOMMON_H

#include <blocc/context.h>
#include <blocc/parser.h>
#include <blocc/executable.h>
#include <blocc/string_reader.h>
#include <blocc/exception_parse.h>
#include <blocc/exception_runtime.h>
#include <blocc/functor_manager.h>
#include <blocc/collection.h>
#include <blocc/tuple.h>
#include <blocc/complex.h>
#include <blocc/statement.h>
#include <blocc/expression.h>

#include <cstdio>
#include <cstdlib>
#include <cstring>
#include <string>
#include <vector>
#include <map>
#include <stdexcept>
#include <typeinfo>
#include <cxxabi.h>
#include <unistd.h>
#include <sys/mman.h>

namespace vc
{

struct HErr { std::string msg; explicit HErr(const std::string& m) : msg(m) { } const char * what() const { return msg.c_str(); } };

static inline std::string hexenc(const std::string& s)
{
  static const char * d = "0123456789abcdef";
  if (s.empty()) return "-";
  std::string o; o.reserve(s.size() * 2);
  for (unsigned char c : s) { o.push_back(d[c >> 4]); o.push_back(d[c & 15]); }
  return o;
}

static inline int hv(char c)
{
  if (c >= '0' && c <= '9') return c - '0';
  if (c >= 'a' && c <= 'f') return c - 'a' + 10;
  if (c >= 'A' && c <= 'F') return c - 'A' + 10;
  throw vc::HErr("bad hex");
}

static inline std::string hexdec(const std::string& s)
{
  if (s == "-") return std::string();
  std::string o; o.reserve(s.size() / 2);
  for (size_t i = 0; i + 1 < s.size(); i += 2) o.push_back((char)((hv(s[i]) << 4) | hv(s[i + 1])));
  return o;
}

static inline std::vector<std::string> split(const std::string& s, char sep = ' ')
{
  std::vector<std::string> v; std::string cur;
  for (char c : s) { if (c == sep) { v.push_back(cur); cur.clear(); } else cur.push_back(c); }
  v.push_back(cur);
  return v;
}

static inline char majorChar(bloc::Type::TypeMajor m)
{
  switch (m)
  {
  case bloc::Type::NO_TYPE: return 'u';
  case bloc::Type::BOOLEAN: return 'b';
  case bloc::Type::INTEGER: return 'i';
  case bloc::Type::NUMERIC: return 'n';
  case bloc::Type::LITERAL: return 's';
  case bloc::Type::COMPLEX: return 'o';
  case bloc::Type::TABCHAR: return 'x';
  case bloc::Type::ROWTYPE: return 'r';
  case bloc::Type::POINTER: return 'p';
  case bloc::Type::IMAGINARY: return 'm';
  }
  return '?';
}

static inline bloc::Type::TypeMajor charMajor(char c)
{
  switch (c)
  {
  case 'u': return bloc::Type::NO_TYPE;
  case 'b': return bloc::Type::BOOLEAN;
  case 'i': return bloc::Type::INTEGER;
  case 'n': return bloc::Type::NUMERIC;
  case 's': return bloc::Type::LITERAL;
  case 'o': return bloc::Type::COMPLEX;
  case 'x': return bloc::Type::TABCHAR;
  case 'r': return bloc::Type::ROWTYPE;
  case 'p': return bloc::Type::POINTER;
  case 'm': return bloc::Type::IMAGINARY;
  }
  throw vc::HErr("bad type char");
}

// type string: <majorchar><level>[#minor]
static inline std::string typeStr(const bloc::Type& t)
{
  std::string o; o.push_back(majorChar(t.major())); o.append(std::to_string((unsigned)t.level()));
  if (t.minor()) o.append("#").append(std::to_string((unsigned)t.minor()));
  return o;
}

static inline std::string declStr(const bloc::TupleDecl::Decl& d)
{
  std::string o = "{";
  bool f = true;
  for (const bloc::Type& t : d) { if (!f) o.push_back(','); f = false; o.append(typeStr(t)); }
  o.push_back('}');
  return o;
}

static inline std::string u64hex(uint64_t v)
{
  char b[20]; snprintf(b, sizeof b, "%016llx", (unsigned long long)v); return b;
}

static inline void ser(const bloc::Value& cv, std::string& o, int depth = 0)
{
  bloc::Value& v = const_cast<bloc::Value&>(cv);
  const bloc::Type& t = v.type();
  if (depth > 40) { o.append("DEEP"); return; }
  if (v.isNull()) { o.append("Z").append(typeStr(t)); return; }
  if (t.level() > 0)
  {
    bloc::Collection * c = v.collection();
    o.append("t").append(typeStr(c->table_type()));
    if (c->table_type().major() == bloc::Type::ROWTYPE) o.append(declStr(c->table_decl()));
    // the Value's own type must agree with its collection's type
    if (c->table_type() != t) o.append("!VT=").append(typeStr(t));
    o.push_back('[');
    for (size_t i = 0; i < c->size(); ++i) { if (i) o.push_back(','); ser((*c)[i], o, depth + 1); }
    o.push_back(']');
    return;
  }
  switch (t.major())
  {
  case bloc::Type::NO_TYPE: o.append("u:?"); break;
  case bloc::Type::BOOLEAN: o.append(*v.boolean() ? "b:1" : "b:0"); break;
  case bloc::Type::INTEGER: o.append("i:").append(std::to_string((long long)*v.integer())); break;
  case bloc::Type::NUMERIC: { uint64_t u; double d = *v.numeric(); memcpy(&u, &d, 8); o.append("n:").append(u64hex(u)); break; }
  case bloc::Type::LITERAL: o.append("s:").append(v.literal()->empty() ? "" : hexenc(*v.literal())); break;
  case bloc::Type::TABCHAR: { bloc::TabChar * x = v.tabchar(); o.append("x:"); if (!x->empty()) o.append(hexenc(std::string(x->data(), x->size()))); break; }
  case bloc::Type::IMAGINARY: { bloc::Imaginary * m = v.imaginary(); uint64_t a, b; memcpy(&a, &m->a, 8); memcpy(&b, &m->b, 8); o.append("m:").append(u64hex(a)).append(u64hex(b)); break; }
  case bloc::Type::COMPLEX: { bloc::Complex * c = v.complex(); o.append("o#").append(std::to_string((unsigned)c->typeId())).append(":").append(u64hex((uint64_t)(uintptr_t)c->instance())); break; }
  case bloc::Type::POINTER: { o.append("p("); bloc::Value * p = v.value(); if (p) ser(*p, o, depth + 1); o.push_back(')'); break; }
  case bloc::Type::ROWTYPE:
  {
    bloc::Tuple * r = v.tuple();
    o.append("r").append(declStr(r->tuple_decl()));
    if (r->tuple_type() != t) o.append("!VT=").append(typeStr(t));
    o.push_back('(');
    for (size_t i = 0; i < r->size(); ++i) { if (i) o.push_back(','); ser((*r)[i], o, depth + 1); }
    o.push_back(')');
    break;
  }
  }
}

static inline std::string ser(const bloc::Value& v) { std::string o; ser(v, o); return o; }

// ---- value parser (input side) -------------------------------------------------------------

struct VParser
{
  const std::string& s; size_t p = 0;
  explicit VParser(const std::string& str) : s(str) { }
  char peek() const { return p < s.size() ? s[p] : '\0'; }
  char get() { if (p >= s.size()) throw vc::HErr("eof in value"); return s[p++]; }
  void expect(char c) { if (get() != c) throw vc::HErr(std::string("expected ") + c); }
  unsigned number()
  {
    unsigned n = 0; bool any = false;
    while (isdigit((unsigned char)peek())) { n = n * 10 + (get() - '0'); any = true; }
    if (!any) throw vc::HErr("number expected");
    return n;
  }
  bloc::Type type()
  {
    bloc::Type::TypeMajor m = charMajor(get());
    unsigned lvl = number(); unsigned minor = 0;
    if (peek() == '#') { get(); minor = number(); }
    return bloc::Type(m, (bloc::Type::TypeMinor)minor, (bloc::Type::TypeLevel)lvl);
  }
  bloc::TupleDecl::Decl decl()
  {
    bloc::TupleDecl::Decl d; expect('{');
    if (peek() == '}') { get(); return d; }
    for (;;) { d.push_back(type()); char c = get(); if (c == '}') break; if (c != ',') throw vc::HErr("decl"); }
    return d;
  }
  std::string hexrun()
  {
    size_t b = p; while (isxdigit((unsigned char)peek())) ++p;
    return hexdec(s.substr(b, p - b).empty() ? "-" : s.substr(b, p - b));
  }
  bloc::Value value()
  {
    char c = get();
    switch (c)
    {
    case 'Z':
    {
      bloc::Type t = type();
      if (t.major() == bloc::Type::ROWTYPE && peek() == '{')
      {
        bloc::TupleDecl::Decl d = decl();
        return bloc::Value(d.make_type(t.level()));
      }
      return bloc::Value(t);
    }
    case 'b': expect(':'); return bloc::Value(bloc::Bool(get() == '1'));
    case 'i':
    {
      expect(':'); size_t b = p; if (peek() == '-') ++p; while (isdigit((unsigned char)peek())) ++p;
      return bloc::Value(bloc::Integer((int64_t)strtoll(s.substr(b, p - b).c_str(), nullptr, 10)));
    }
    case 'n':
    {
      expect(':'); std::string h = s.substr(p, 16); p += 16;
      uint64_t u = strtoull(h.c_str(), nullptr, 16); double d; memcpy(&d, &u, 8);
      return bloc::Value(bloc::Numeric(d));
    }
    case 's': expect(':'); return bloc::Value(new bloc::Literal(hexrun()));
    case 'x': { expect(':'); std::string b = hexrun(); return bloc::Value(new bloc::TabChar(b.begin(), b.end())); }
    case 'm':
    {
      expect(':'); std::string h1 = s.substr(p, 16), h2 = s.substr(p + 16, 16); p += 32;
      uint64_t a = strtoull(h1.c_str(), nullptr, 16), b = strtoull(h2.c_str(), nullptr, 16);
      bloc::Imaginary * m = new bloc::Imaginary; memcpy(&m->a, &a, 8); memcpy(&m->b, &b, 8);
      return bloc::Value(m);
    }
    case 'r':
    {
      if (peek() == '{') (void)decl();
      expect('(');
      bloc::Tuple::container_t items;
      if (peek() == ')') get();
      else for (;;) { items.push_back(value()); char d = get(); if (d == ')') break; if (d != ',') throw vc::HErr("tuple"); }
      return bloc::Value(new bloc::Tuple(std::move(items)));
    }
    case 't':
    {
      bloc::Type t = type();
      bloc::Collection * col;
      if (t.major() == bloc::Type::ROWTYPE && peek() == '{') { bloc::TupleDecl::Decl d = decl(); col = new bloc::Collection(d, t.level()); }
      else col = new bloc::Collection(t);
      expect('[');
      if (peek() == ']') get();
      else for (;;) { col->push_back(value()); char d = get(); if (d == ']') break; if (d != ',') { delete col; throw vc::HErr("table"); } }
      return bloc::Value(col);
    }
    }
    throw vc::HErr(std::string("bad value tag ") + c);
  }
};

static inline std::string demangle(const char * n)
{
  int st = 0; char * d = abi::__cxa_demangle(n, nullptr, nullptr, &st);
  std::string r = (st == 0 && d) ? d : n; free(d); return r;
}

// output capture -------------------------------------------------------------------------------
struct OutFd
{
  int fd = -1; off_t off = 0; bool truncated = false;
  void open() { fd = memfd_create("vout", 0); if (fd < 0) { perror("memfd"); exit(3); } }
  void close_() { if (fd >= 0) ::close(fd); fd = -1; }
  std::string take(size_t cap = (1u << 20))
  {
    std::string out; char buf[8192];
    for (;;)
    {
      ssize_t n = pread(fd, buf, sizeof buf, off);
      if (n <= 0) break;
      off += n;
      if (out.size() < cap) out.append(buf, (size_t)n);
      else truncated = true;      // the caller reports it: an output that was cut cannot be compared
    }
    return out;
  }
};

}

#endif
