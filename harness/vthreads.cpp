// vthreads — clone/thread driver for C14.  One scenario per process (stdin), built for tsan and asan.
//
// scenario lines:
//   INIT <hex>            text parsed and run in the original context O (functions, variables)
//   PROG <hex>            text compiled in O; PROG lines are numbered 0.. in order
//   PRE <k> <hex>         text parsed and run in clone k by the main thread before the threads start
//   THREAD <p,p,...>      one line per clone/thread: the programs it runs, in order
//   OPROG <p,p,...>       programs the original itself runs (on the main thread, concurrently with the threads)
//   ORIGIN keep|purge|free
//   MODE conc|seq         seq = same bodies run one after the other on the main thread (the reference)
//   API cpp|c             Executable::run(ctx, statements) or bloc_execute2
//   YIELD <seed> <per1024>  seeded sched_yield()/spin at statement boundaries (step hook)
//   BUDGET <n>            statements per thread before the run is interrupted
//   FREE progs-first|ctx-first
//   CHAIN 1               clone k is a clone of clone k-1
//   PRE -1 <hex>          the same for the original (after the clones were taken)
#include "vcommon.h"
#include <blocc/bloc_capi.h>
#include <thread>
#include <atomic>
#include <iostream>
#include <sched.h>
#include <algorithm>

using namespace bloc;
using namespace vc;

struct Body
{
  int id = 0;
  Context * ctx = nullptr;
  OutFd out;
  std::vector<int> progs;
  std::vector<std::string> results;
  std::vector<uint64_t> stamps;
  uint64_t rng = 0;
  long steps = 0;
  bool interrupted = false;
};

static std::atomic<uint64_t> g_clock(0);
static thread_local Body * t_self = nullptr;
static int g_yield = 0;
static long g_budget = 200000;
static bool g_capi = false;
static std::vector<Executable*> g_progs;

static void step_hook(Context& ctx, const Statement *)
{
  Body * b = t_self;
  if (!b) return;
  ++b->steps;
  // relaxed: the monitor must not add synchronisation between the threads it observes
  uint64_t now = g_clock.fetch_add(1, std::memory_order_relaxed);
  if (b->stamps.size() < 4096) b->stamps.push_back(now);
  if (b->steps > g_budget && !b->interrupted) { b->interrupted = true; b->ctx->returnCondition(true); }
  if (g_yield)
  {
    b->rng = b->rng * 6364136223846793005ULL + 1442695040888963407ULL;
    unsigned r = (unsigned)(b->rng >> 33) & 1023;
    if ((int)r < g_yield)
    {
      if (r & 1) sched_yield();
      else { volatile unsigned spin = 0; for (unsigned i = 0; i < 200 + (r << 3); ++i) spin += i; }
    }
  }
  (void)ctx;
}

static std::string symType(const Symbol& s)
{
  std::string o = typeStr(s);
  if (s.major() == Type::ROWTYPE) o += declStr(s.tuple_decl());
  return o;
}

static std::string unparseStmt(Context& ctx, const Statement * s)
{
  char * buf = nullptr; size_t len = 0;
  FILE * f = open_memstream(&buf, &len);
  s->unparse(ctx, f);
  fclose(f);
  std::string r(buf, len); free(buf); return r;
}

static bool g_bodies = true;
static std::string dump(Context& ctx)
{
  std::string o = "depth=" + std::to_string(ctx.verifControlDepth()) + " lvl=" + std::to_string(ctx.execLevel())
    + " ret=" + std::to_string((int)ctx.returnCondition());
  size_t n = ctx.verifSymbolCount();
  for (unsigned i = 0; i < n; ++i)
  {
    Symbol& s = ctx.getSymbol(i);
    o += " V:" + hexenc(s.name()) + ":" + symType(s) + ":" + (s.safety() ? "S" : "-") + (s.locked() ? "L" : "-") + ":" + ser(ctx.loadVariable(i));
  }
  for (const FunctorManager::Entry& e : ctx.functorManager().declarations())
  {
    std::string body = "NULLBODY";
    if (!g_bodies) body = "-"; else if (e.functor->body && e.functor->ctx) body = hexenc(unparseStmt(*e.functor->ctx, e.functor->body));
    o += " F:" + hexenc(e.functor->name) + ":" + std::to_string(e.functor->params.size()) + ":" + body;
  }
  return o;
}

static void runBody(Body * b)
{
  t_self = b;
  for (int p : b->progs)
  {
    Executable * x = g_progs[p];
    std::string res;
    if (g_capi)
    {
      bloc_bool ok = bloc_execute2(reinterpret_cast<bloc_context*>(b->ctx), reinterpret_cast<bloc_executable*>(x));
      if (ok) res = "ok";
      else { const char * m = bloc_strerror(); res = "rerr " + std::to_string(bloc_errno()) + " " + hexenc(m ? m : "<NULL>"); }
    }
    else
    {
      try { Executable::run(*b->ctx, x->statements()); res = "ok"; }
      catch (RuntimeError& re) { res = "rerr " + std::to_string((int)re.no) + " " + hexenc(re.what()); }
      catch (std::exception& e) { res = "foreign " + hexenc(demangle(typeid(e).name())) + " " + hexenc(e.what()); }
    }
    Value * v = b->ctx->dropReturned();
    res += " retv=" + (v ? ser(*v) : std::string("none"));
    delete v;
    if (b->interrupted) res += " intr=1";
    b->ctx->returnCondition(false);
    b->results.push_back("prog=" + std::to_string(p) + " " + res);
  }
  t_self = nullptr;
}

static std::vector<int> ints(const std::string& s)
{
  std::vector<int> o;
  for (auto& t : split(s, ',')) if (!t.empty()) o.push_back(atoi(t.c_str()));
  return o;
}

int main()
{
  setvbuf(stdout, nullptr, _IOFBF, 1 << 16);
  std::string init, origin = "keep", mode = "conc", freeorder = "progs-first";
  std::vector<std::string> progtexts;
  std::vector<std::vector<int>> threads;
  std::vector<std::pair<int, std::string>> pres;
  std::vector<int> oprog;
  uint64_t yseed = 1;
  bool trusted = false, chain = false;
  std::string line;
  while (std::getline(std::cin, line))
  {
    auto f = split(line);
    if (f.empty()) continue;
    if (f[0] == "INIT") init = hexdec(f.size() > 1 ? f[1] : "-");
    else if (f[0] == "PROG") progtexts.push_back(hexdec(f[1]));
    else if (f[0] == "PRE") pres.push_back({atoi(f[1].c_str()), hexdec(f[2])});
    else if (f[0] == "THREAD") threads.push_back(ints(f.size() > 1 ? f[1] : ""));
    else if (f[0] == "OPROG") oprog = ints(f[1]);
    else if (f[0] == "ORIGIN") origin = f[1];
    else if (f[0] == "MODE") mode = f[1];
    else if (f[0] == "API") g_capi = (f[1] == "c");
    else if (f[0] == "YIELD") { yseed = strtoull(f[1].c_str(), nullptr, 10); g_yield = atoi(f[2].c_str()); }
    else if (f[0] == "BUDGET") g_budget = atol(f[1].c_str());
    else if (f[0] == "FREE") freeorder = f[1];
    else if (f[0] == "TRUST") trusted = f[1] == "1";
    else if (f[0] == "CHAIN") chain = f[1] == "1";
  }
  verif_set_step(step_hook);

  Body O; O.id = -1; O.out.open();
  O.ctx = new Context(O.out.fd, O.out.fd);
  if (trusted) O.ctx->trusted(true);
  O.progs = oprog; O.rng = yseed * 7919 + 17;
  {
    std::string res = "ok";
    try { StringReader r(init); Executable * x = Parser::parse(*O.ctx, r); try { x->run(); } catch (RuntimeError& re) { res = "rerr " + std::to_string((int)re.no) + " " + hexenc(re.what()); } delete x; }
    catch (ParseError& pe) { res = "perr " + std::to_string((int)pe.no) + " " + hexenc(pe.what()); }
    O.ctx->returnCondition(false);
    delete O.ctx->dropReturned();
    printf("INITRES %s\n", res.c_str());
  }
  for (size_t i = 0; i < progtexts.size(); ++i)
  {
    try { StringReader r(progtexts[i]); g_progs.push_back(Parser::parse(*O.ctx, r)); printf("PROGRES %zu ok\n", i); }
    catch (ParseError& pe) { g_progs.push_back(nullptr); printf("PROGRES %zu perr %d %s\n", i, (int)pe.no, hexenc(pe.what()).c_str()); }
  }
  for (auto x : g_progs) if (!x) { printf("ABORT uncompiled program\nDONE\n"); return 0; }

  std::vector<Body*> bodies;
  for (size_t k = 0; k < threads.size(); ++k)
  {
    Body * b = new Body; b->id = (int)k; b->out.open();
    // CHAIN: clone k is taken from clone k-1 (a clone of a clone), otherwise every clone is taken from the original
    b->ctx = (chain && k > 0 ? bodies[k - 1]->ctx : O.ctx)->clone(b->out.fd, b->out.fd);
    b->progs = threads[k]; b->rng = yseed * 1000003 + k * 7 + 1;
    bodies.push_back(b);
  }
  for (auto& pr : pres)
  {
    if (pr.first < -1 || pr.first >= (int)bodies.size()) continue;
    Body * b = pr.first == -1 ? &O : bodies[pr.first];
    std::string res = "ok";
    try { StringReader r(pr.second); Executable * x = Parser::parse(*b->ctx, r); try { x->run(); } catch (RuntimeError& re) { res = "rerr " + std::to_string((int)re.no) + " " + hexenc(re.what()); } delete x; }
    catch (ParseError& pe) { res = "perr " + std::to_string((int)pe.no) + " " + hexenc(pe.what()); }
    b->ctx->returnCondition(false);
    delete b->ctx->dropReturned();
    printf("PRERES %d %s\n", pr.first, res.c_str());
  }
  // the original's own observable state at the moment the clones exist
  printf("O DUMP0 %s\n", dump(*O.ctx).c_str());
  bool ofreed = false;
  // unparsing a function body goes through the context that parsed it: only meaningful while the original is intact
  if (origin != "keep") g_bodies = false;
  if (origin == "purge") O.ctx->purge();
  else if (origin == "free") { delete O.ctx; O.ctx = nullptr; ofreed = true; }

  if (mode == "seq")
  {
    for (Body * b : bodies) runBody(b);
    if (!ofreed && !O.progs.empty()) runBody(&O);
  }
  else
  {
    std::vector<std::thread> ths;
    for (Body * b : bodies) ths.emplace_back(runBody, b);
    if (!ofreed && !O.progs.empty()) runBody(&O);
    for (auto& t : ths) t.join();
  }

  // interleaving signature (after join: the per-thread stamp arrays are private until here)
  {
    std::vector<std::pair<uint64_t, int>> all;
    long steps = 0;
    for (Body * b : bodies) { steps += b->steps; for (uint64_t s : b->stamps) all.push_back({s, b->id}); }
    steps += O.steps; for (uint64_t s : O.stamps) all.push_back({s, -1});
    std::sort(all.begin(), all.end());
    uint64_t h = 1469598103934665603ULL; long sw = 0; int last = -99;
    for (auto& e : all) { if (e.second != last) { ++sw; last = e.second; h = (h ^ (uint64_t)(e.second + 2)) * 1099511628211ULL; } }
    printf("SIG %016llx switches=%ld steps=%ld threads=%zu\n", (unsigned long long)h, sw, steps, bodies.size());
  }
  for (Body * b : bodies)
  {
    for (auto& r : b->results) printf("T %d RES %s\n", b->id, r.c_str());
    printf("T %d OUT %s\n", b->id, hexenc(b->out.take()).c_str());
    printf("T %d DUMP %s\n", b->id, dump(*b->ctx).c_str());
  }
  if (!ofreed)
  {
    for (auto& r : O.results) printf("O RES %s\n", r.c_str());
    printf("O OUT %s\n", hexenc(O.out.take()).c_str());
    if (origin != "purge") printf("O DUMP %s\n", dump(*O.ctx).c_str());
  }
  fflush(stdout);
  if (freeorder == "progs-first") { for (auto x : g_progs) delete x; g_progs.clear(); }
  for (Body * b : bodies) { delete b->ctx; b->out.close_(); }
  if (!ofreed) delete O.ctx;
  for (auto x : g_progs) delete x;
  for (Body * b : bodies) delete b;
  printf("LIVE %ld\nDONE\n", (long)Context::verif_live.load());
  fflush(stdout);
  return 0;
}
