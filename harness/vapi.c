/* vapi: executes a sequence of BLOC C API calls read from stdin (one op per line) using ONLY blocc/bloc_capi.h.
 * One process per sequence: at exit LeakSanitizer attributes any leak to the sequence.
 * Replies: one line "R ..." per op on stdout.  Strings are hex encoded ("-" = empty, "NULL" = null pointer). */
#include <blocc/bloc_capi.h>
#include <stdio.h>
#include <stdlib.h>
#include <string.h>
#include <stdint.h>
#include <unistd.h>
#include <sys/mman.h>
#include <sanitizer/lsan_interface.h>

#define MAXH 256
static bloc_context * C[MAXH]; static int Cfd[MAXH]; static off_t Coff[MAXH];
static bloc_value * V[MAXH];            /* caller-owned values */
static bloc_value * L[MAXH];            /* library-owned value pointers */
static bloc_symbol * S[MAXH];
static bloc_expression * E[MAXH];
static bloc_executable * X[MAXH];

static int hv(char c) { if (c >= '0' && c <= '9') return c - '0'; if (c >= 'a' && c <= 'f') return c - 'a' + 10; return 0; }
static char * unhex(const char * h, unsigned * len)
{
  if (strcmp(h, "NULL") == 0) { *len = 0; return NULL; }
  if (strcmp(h, "-") == 0) { char * e = (char*) malloc(1); e[0] = 0; *len = 0; return e; }
  size_t n = strlen(h) / 2; char * o = (char*) malloc(n + 1);
  for (size_t i = 0; i < n; ++i) o[i] = (char) ((hv(h[2 * i]) << 4) | hv(h[2 * i + 1]));
  o[n] = 0; *len = (unsigned) n; return o;
}
static void puthex(const char * p, size_t n)
{
  static const char * d = "0123456789abcdef";
  if (n == 0) { putchar('-'); return; }
  for (size_t i = 0; i < n; ++i) { putchar(d[((unsigned char) p[i]) >> 4]); putchar(d[((unsigned char) p[i]) & 15]); }
}
static bloc_value * H(const char * h)   /* "V3" or "L5" */
{
  int i = atoi(h + 1);
  if (i < 0 || i >= MAXH) return NULL;
  return h[0] == 'V' ? V[i] : L[i];
}

static void dumpv(bloc_value * v, int depth)
{
  bloc_type t = bloc_value_type(v);
  if (depth > 8) { printf("DEEP"); return; }
  if (bloc_value_isnull(v)) { printf("Z%d.%u", (int) t.major, t.ndim); return; }
  if (t.ndim > 0)
  {
    bloc_array * a = NULL;
    if (!bloc_table(v, &a) || !a) { printf("BADTABLE"); return; }
    unsigned n = bloc_array_size(a);
    printf("t%d.%u[", (int) t.major, t.ndim);
    for (unsigned i = 0; i < n; ++i) { bloc_value * it = NULL; if (i) putchar(','); if (bloc_array_item(a, i, &it) && it) dumpv(it, depth + 1); else printf("BADITEM"); }
    putchar(']');
    { bloc_value * it = NULL; if (bloc_array_item(a, n, &it)) printf("!ITEM-BEYOND-SIZE"); }
    return;
  }
  switch (t.major)
  {
  case BOOLEAN: { bloc_bool * b = NULL; if (bloc_boolean(v, &b) && b) printf("b:%d", *b ? 1 : 0); else printf("BAD"); break; }
  case INTEGER: { int64_t * i = NULL; if (bloc_integer(v, &i) && i) printf("i:%lld", (long long) *i); else printf("BAD"); break; }
  case NUMERIC: { double * d = NULL; if (bloc_numeric(v, &d) && d) { uint64_t u; memcpy(&u, d, 8); printf("n:%016llx", (unsigned long long) u); } else printf("BAD"); break; }
  case LITERAL: { const char * s = NULL; if (bloc_literal(v, &s) && s) { printf("s:"); puthex(s, strlen(s)); } else printf("BAD"); break; }
  case TABCHAR: { const char * s = NULL; unsigned n = 0; if (bloc_tabchar(v, &s, &n)) { printf("x:"); puthex(s, n); } else printf("BAD"); break; }
  case IMAGINARY: { bloc_pair * p = NULL; if (bloc_imaginary(v, &p) && p) { uint64_t a, b; memcpy(&a, &p->a, 8); memcpy(&b, &p->b, 8); printf("m:%016llx%016llx", (unsigned long long) a, (unsigned long long) b); } else printf("BAD"); break; }
  case ROWTYPE:
  {
    bloc_row * r = NULL;
    if (!bloc_tuple(v, &r) || !r) { printf("BADTUPLE"); return; }
    unsigned n = bloc_tuple_size(r);
    printf("r(");
    for (unsigned i = 0; i < n; ++i) { bloc_value * it = NULL; if (i) putchar(','); if (bloc_tuple_item(r, i, &it) && it) dumpv(it, depth + 1); else printf("BADITEM"); }
    putchar(')');
    { bloc_value * it = NULL; if (bloc_tuple_item(r, n, &it)) printf("!ITEM-BEYOND-SIZE"); }
    break;
  }
  default: printf("other%d", (int) t.major); break;
  }
}

static void errline(void)
{
  const char * m = bloc_strerror();
  printf(" errno=%d msg=", bloc_errno());
  if (m) puthex(m, strlen(m)); else printf("NULL");
}

static void take_out(int c)
{
  char buf[4096]; FILE * f = bloc_ctx_out(C[c]); if (f) fflush(f);
  for (;;) { ssize_t n = pread(Cfd[c], buf, sizeof buf, Coff[c]); if (n <= 0) break; Coff[c] += n; puthex(buf, (size_t) n); }
}

int main(void)
{
  char * line = NULL; size_t cap = 0;
  setvbuf(stdout, NULL, _IOFBF, 1 << 16);
  while (getline(&line, &cap, stdin) > 0)
  {
    char * f[8]; int nf = 0;
    char * p = strtok(line, " \n");
    while (p && nf < 8) { f[nf++] = p; p = strtok(NULL, " \n"); }
    if (nf == 0) continue;
    const char * op = f[0];
    printf("R ");
    if (0) { }
    else if ((!strcmp(op, "efree") || !strcmp(op, "etype")) && !E[atoi(f[!strcmp(op, "efree") ? 1 : 2])]) printf("nullhandle");
    else if (!strcmp(op, "eval") && !E[atoi(f[2])]) printf("nullhandle");
    else if ((!strcmp(op, "exec") || !strcmp(op, "xfree")) && !X[atoi(f[1])]) printf("nullhandle");
    else if (!strcmp(op, "exec2") && !X[atoi(f[2])]) printf("nullhandle");
    else if ((!strcmp(op, "dumpv") || !strcmp(op, "acc") || !strcmp(op, "v_type")) && !H(f[1])) printf("nullhandle");
    else if ((!strcmp(op, "store") || !strcmp(op, "load")) && !S[atoi(f[2])]) printf("nullhandle");
    else if (!strcmp(op, "ctx_new")) { int c = atoi(f[1]); Cfd[c] = memfd_create("o", 0); Coff[c] = 0; C[c] = bloc_create_context(Cfd[c], Cfd[c]); printf(C[c] ? "ok" : "NULL"); }
    else if (!strcmp(op, "ctx_clone")) { int c = atoi(f[1]), d = atoi(f[2]); Cfd[d] = memfd_create("o", 0); Coff[d] = 0; C[d] = bloc_clone_context2(C[c], Cfd[d], Cfd[d]); printf(C[d] ? "ok" : "NULL"); }
    else if (!strcmp(op, "ctx_clone1")) { int c = atoi(f[1]), d = atoi(f[2]); Cfd[d] = dup(Cfd[c]); Coff[d] = Coff[c]; C[d] = bloc_clone_context(C[c]); printf(C[d] ? "ok" : "NULL"); }
    else if (!strcmp(op, "ctx_purge")) { bloc_ctx_purge(C[atoi(f[1])]); printf("ok"); }
    else if (!strcmp(op, "ctx_purgewm")) { bloc_ctx_purge_working_mem(C[atoi(f[1])]); printf("ok"); }
    else if (!strcmp(op, "ctx_free")) { int c = atoi(f[1]); bloc_free_context(C[c]); C[c] = NULL; close(Cfd[c]); printf("ok"); }
    else if (!strcmp(op, "out")) { printf("out "); take_out(atoi(f[1])); }
    else if (!strcmp(op, "trace")) { int c = atoi(f[1]); bloc_ctx_enable_trace(C[c], (bloc_bool) atoi(f[2])); printf("trace %d", (int) bloc_ctx_trace(C[c])); }
    else if (!strcmp(op, "v_null")) { V[atoi(f[1])] = bloc_create_null((bloc_type_major) atoi(f[2])); printf("ok"); }
    else if (!strcmp(op, "v_bool")) { V[atoi(f[1])] = bloc_create_boolean((bloc_bool) atoi(f[2])); printf("ok"); }
    else if (!strcmp(op, "v_int")) { V[atoi(f[1])] = bloc_create_integer((int64_t) strtoll(f[2], NULL, 10)); printf("ok"); }
    else if (!strcmp(op, "v_num")) { uint64_t u = strtoull(f[2], NULL, 16); double d; memcpy(&d, &u, 8); V[atoi(f[1])] = bloc_create_numeric(d); printf("ok"); }
    else if (!strcmp(op, "v_lit")) { unsigned n; char * s = unhex(f[2], &n); V[atoi(f[1])] = bloc_create_literal(s); free(s); printf("ok"); }
    else if (!strcmp(op, "v_tab")) { unsigned n; char * s = unhex(f[2], &n); V[atoi(f[1])] = bloc_create_tabchar(s, n); free(s); printf("ok"); }
    else if (!strcmp(op, "v_img")) { bloc_pair pr; uint64_t a = strtoull(f[2], NULL, 16), b = strtoull(f[3], NULL, 16); memcpy(&pr.a, &a, 8); memcpy(&pr.b, &b, 8); V[atoi(f[1])] = bloc_create_imaginary(pr); printf("ok"); }
    else if (!strcmp(op, "v_free")) { int v = atoi(f[1]); bloc_free_value(V[v]); V[v] = NULL; printf("ok"); }
    else if (!strcmp(op, "v_assign_lit")) { unsigned n; char * s = unhex(f[2], &n); printf("%d", (int) bloc_assign_literal(H(f[1]), s)); free(s); }
    else if (!strcmp(op, "v_assign_tab")) { unsigned n; char * s = unhex(f[2], &n); printf("%d", (int) bloc_assign_tabchar(H(f[1]), s, n)); free(s); }
    else if (!strcmp(op, "v_assign_null")) { bloc_assign_null(H(f[1])); printf("ok"); }
    else if (!strcmp(op, "v_type")) { bloc_type t = bloc_value_type(H(f[1])); printf("type %d %u null=%d", (int) t.major, t.ndim, (int) bloc_value_isnull(H(f[1]))); }
    else if (!strcmp(op, "dumpv")) { printf("val "); dumpv(H(f[1]), 0); }
    else if (!strcmp(op, "acc"))
    {
      /* every typed accessor on one value: which succeed, and is the data pointer NULL */
      bloc_value * v = H(f[1]);
      bloc_bool * b = (bloc_bool*) 1; int64_t * i = (int64_t*) 1; double * d = (double*) 1; const char * s = (const char*) 1; const char * x = (const char*) 1; unsigned xl = 0;
      bloc_array * a = (bloc_array*) 1; bloc_row * r = (bloc_row*) 1; bloc_pair * m = (bloc_pair*) 1;
      int rb = bloc_boolean(v, &b), ri = bloc_integer(v, &i), rd = bloc_numeric(v, &d), rs = bloc_literal(v, &s), rx = bloc_tabchar(v, &x, &xl), ra = bloc_table(v, &a), rr = bloc_tuple(v, &r), rm = bloc_imaginary(v, &m);
      printf("acc b=%d%s i=%d%s n=%d%s s=%d%s x=%d%s t=%d%s r=%d%s m=%d%s", rb, rb && !b ? "N" : "", ri, ri && !i ? "N" : "", rd, rd && !d ? "N" : "", rs, rs && !s ? "N" : "", rx, rx && !x ? "N" : "",
             ra, ra && !a ? "N" : "", rr, rr && !r ? "N" : "", rm, rm && !m ? "N" : "");
    }
    else if (!strcmp(op, "sym_reg")) { bloc_type t; unsigned n; char * nm = unhex(f[3], &n); t.major = (bloc_type_major) atoi(f[4]); t.ndim = (unsigned) atoi(f[5]); S[atoi(f[2])] = bloc_ctx_register_symbol(C[atoi(f[1])], nm, t); free(nm); if (S[atoi(f[2])]) printf("ok"); else { printf("NULL"); errline(); } }
    else if (!strcmp(op, "sym_find")) { unsigned n; char * nm = unhex(f[3], &n); S[atoi(f[2])] = bloc_ctx_find_symbol(C[atoi(f[1])], nm); free(nm); printf(S[atoi(f[2])] ? "found" : "NULL"); }
    else if (!strcmp(op, "store")) { int r = bloc_ctx_store_variable(C[atoi(f[1])], S[atoi(f[2])], V[atoi(f[3])]); printf("%d", r); if (!r) errline(); }
    else if (!strcmp(op, "load")) { L[atoi(f[3])] = bloc_ctx_load_variable(C[atoi(f[1])], S[atoi(f[2])]); printf(L[atoi(f[3])] ? "ok" : "NULL"); }
    else if (!strcmp(op, "pexpr")) { unsigned n; char * t = unhex(f[3], &n); E[atoi(f[2])] = bloc_parse_expression(C[atoi(f[1])], t); free(t); if (E[atoi(f[2])]) printf("ok"); else { printf("NULL"); errline(); } }
    else if (!strcmp(op, "efree")) { bloc_free_expression(E[atoi(f[1])]); E[atoi(f[1])] = NULL; printf("ok"); }
    else if (!strcmp(op, "etype")) { bloc_type t = bloc_expression_type(C[atoi(f[1])], E[atoi(f[2])]); printf("type %d %u", (int) t.major, t.ndim); }
    else if (!strcmp(op, "eval")) { L[atoi(f[3])] = bloc_evaluate_expression(C[atoi(f[1])], E[atoi(f[2])]); if (L[atoi(f[3])]) printf("ok"); else { printf("NULL"); errline(); } }
    else if (!strcmp(op, "pexec")) { unsigned n; char * t = unhex(f[3], &n); bloc_parsing_position pos = { -7, -7 }; X[atoi(f[2])] = bloc_parse_executable(C[atoi(f[1])], t, (nf > 4 && f[4][0] == 'n') ? NULL : &pos); free(t); if (X[atoi(f[2])]) printf("ok"); else { printf("NULL pos=%d:%d", pos.lno, pos.pno); errline(); } }
    else if (!strcmp(op, "xfree")) { bloc_free_executable(X[atoi(f[1])]); X[atoi(f[1])] = NULL; printf("ok"); }
    else if (!strcmp(op, "exec")) { int r = bloc_execute(X[atoi(f[1])]); printf("%d", r); if (!r) errline(); }
    else if (!strcmp(op, "exec2")) { int r = bloc_execute2(C[atoi(f[1])], X[atoi(f[2])]); printf("%d", r); if (!r) errline(); }
    else if (!strcmp(op, "drop")) { V[atoi(f[2])] = bloc_drop_returned(C[atoi(f[1])]); printf(V[atoi(f[2])] ? "ok" : "NULL"); }
    else if (!strcmp(op, "brk")) { bloc_break(C[atoi(f[1])]); printf("ok"); }
    else if (!strcmp(op, "rstop")) { bloc_reset_stop(C[atoi(f[1])]); printf("ok"); }
    else if (!strcmp(op, "errno")) { printf("err"); errline(); }
    else if (!strcmp(op, "leakcheck")) { fflush(stdout); fprintf(stderr, "\n@@LEAKCHECK %s\n", nf > 1 ? f[1] : "-"); int r = __lsan_do_recoverable_leak_check(); fprintf(stderr, "\n@@LEAKCHECK-END %d\n", r); printf("leak %d", r); }
    else if (!strcmp(op, "version")) { printf("version %d %s", bloc_compatible(), bloc_version() ? "str" : "NULL"); }
    else printf("unknown-op");
    putchar('\n');
    fflush(stdout);
  }
  free(line);
  bloc_deinit_plugins();
  return 0;
}
