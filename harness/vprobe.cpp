// vprobe: long-lived worker executing verification "cases" against the instrumented libblocc.
// Protocol (stdin, one op per line, fields separated by one space, strings hex-encoded):
//   BEGIN <caseid> ... ops ... END        -> per op one reply line "R ...", then "DONE <caseid>"
// Every reply goes to stdout; script output is captured per context in a memfd.
#include "vcommon.h"
#include <blocc/bloc_capi.h>
#include <blocc/plugin_manager.h>

#include <iostream>
#include <memory>
#include <csignal>
#include <atomic>

using namespace bloc;
using namespace vc;

static std::string g_case = "-";

extern "C" void __asan_on_error() { fprintf(stderr, "\nCASE %s asan\n", g_case.c_str()); fflush(stderr); }
static void on_abort(int) { const char * p = "\nCASE-ABORT\n"; (void)!write(2, p, strlen(p)); signal(SIGABRT, SIG_DFL); }
static void on_terminate()
{
  fprintf(stderr, "\nCASE %s terminate\n", g_case.c_str());
  try { std::exception_ptr e = std::current_exception(); if (e) std::rethrow_exception(e); }
  catch (std::exception& e) { fprintf(stderr, "terminate called: %s: %s\n", demangle(typeid(e).name()).c_str(), e.what()); }
  catch (...) { fprintf(stderr, "terminate called: unknown exception\n"); }
  abort();
}

// ---- fragmenting reader --------------------------------------------------------------------
class FragReader : public Parser::StreamReader
{
  std::string _text; size_t _pos = 0;
  std::vector<size_t> _cuts; size_t _ci = 0; size_t _fixed = 0; bool _lines = false; bool _stripcr = true;
public:
  unsigned reads = 0;
  // spec: "lines" | "fixed:N" | "cuts:a,b,c" (absolute cut offsets, ascending) | "linesN:N" (lines, at most N bytes)
  FragReader(const std::string& text, const std::string& spec) : _text(text)
  {
    if (spec == "lines") _lines = true;
    else if (spec.compare(0, 6, "fixed:") == 0) _fixed = (size_t)atol(spec.c_str() + 6);
    else if (spec.compare(0, 5, "cuts:") == 0) { for (auto& f : split(spec.substr(5), ',')) if (!f.empty()) _cuts.push_back((size_t)atol(f.c_str())); }
    else if (spec.compare(0, 7, "linesN:") == 0) { _lines = true; _fixed = (size_t)atol(spec.c_str() + 7); }
    else throw vc::HErr("bad frag spec");
  }
  int read(Parser *, char * buf, int max_size) override
  {
    ++reads;
    if (_pos >= _text.size()) return 0;
    size_t end = _text.size();
    if (_lines)
    {
      size_t nl = _text.find('\n', _pos);
      if (nl != std::string::npos) end = nl + 1;
      if (_fixed && end - _pos > _fixed) end = _pos + _fixed;
    }
    else if (_fixed) end = std::min(_text.size(), _pos + _fixed);
    else
    {
      while (_ci < _cuts.size() && _cuts[_ci] <= _pos) ++_ci;
      if (_ci < _cuts.size()) end = std::min(_text.size(), _cuts[_ci]);
    }
    if (end - _pos > (size_t)max_size) end = _pos + (size_t)max_size;
    int c = 0;
    for (size_t i = _pos; i < end; ++i) { if (_stripcr && _text[i] == '\r') continue; buf[c++] = _text[i]; }
    _pos = end;
    if (c == 0 && _pos < _text.size()) return read(nullptr, buf, max_size); // fragment of CRs only
    return c;
  }
};

// ---- state -----------------------------------------------------------------------------------
struct Ctx
{
  Context * ctx = nullptr; OutFd out;
  // interactive parser (CLI-like statement-at-a-time route)
  StringReader * ireader = nullptr; Parser * iparser = nullptr;
  std::vector<const Statement*> istmts;
};
static std::map<std::string, Ctx> g_ctx;
static std::map<std::string, Executable*> g_prog;
static std::map<std::string, Expression*> g_expr;

// step hook state
static long g_budget = -1;             // <0: unlimited
static long g_steps = 0;
static bool g_interrupted = false;
static Context * g_run_root = nullptr;
static bool g_mon_safety = false;
struct SafeObs { Type::TypeMajor major; unsigned level; };
static std::map<std::pair<const Context*, unsigned>, SafeObs> g_safe;
static std::vector<std::string> g_mon_events;

static void step_hook(Context& ctx, const Statement *)
{
  ++g_steps;
  if (g_budget >= 0 && g_steps > g_budget && !g_interrupted)
  {
    g_interrupted = true;
    if (g_run_root) g_run_root->returnCondition(true);
  }
  if (g_mon_safety)
  {
    size_t n = ctx.verifSymbolCount();
    for (unsigned i = 0; i < n; ++i)
    {
      Symbol& s = ctx.getSymbol(i);
      auto key = std::make_pair((const Context*)&ctx, i);
      // a '$' name carries the immutable-type constraint by definition, whatever the flag says
      if (!s.safety() && s.name()[0] != Symbol::SAFETY_QUALIFIER) { g_safe.erase(key); continue; }
      Value& v = ctx.loadVariable(i);
      if (v.type().major() == Type::NO_TYPE) { continue; }
      SafeObs now = { v.type().major(), (unsigned)v.type().level() };
      auto it = g_safe.find(key);
      if (it == g_safe.end()) g_safe[key] = now;
      else if (it->second.major != now.major || (it->second.level > 0) != (now.level > 0))
      {
        if (g_mon_events.size() < 16)
          g_mon_events.push_back("safety-type-change " + s.name() + " " + std::string(1, majorChar(it->second.major)) + std::to_string(it->second.level)
                                 + " " + std::string(1, majorChar(now.major)) + std::to_string(now.level));
        it->second = now;
      }
    }
  }
}

static Ctx& C(const std::string& id)
{
  auto it = g_ctx.find(id);
  if (it == g_ctx.end() || !it->second.ctx) throw vc::HErr("no such ctx " + id);
  return it->second;
}

static std::string g_last_reply;
static bool g_skip = false;
static void reply(const std::string& s) { g_last_reply = s; fputs("R ", stdout); fputs(s.c_str(), stdout); fputc('\n', stdout); }

static std::string perr(const ParseError& pe)
{
  std::string o = "perr " + std::to_string((int)pe.no) + " ";
  if (pe.token) o += std::to_string(pe.token->line) + " " + std::to_string(pe.token->column);
  else o += "-1 -1";
  o += " " + hexenc(pe.what());
  return o;
}

static std::string rerr(const RuntimeError& re)
{
  return "rerr " + std::to_string((int)re.no) + " " + hexenc(re.what());
}

static std::string unparseExec(Executable * x)
{
  char * buf = nullptr; size_t len = 0;
  FILE * f = open_memstream(&buf, &len);
  x->unparse(f);
  fclose(f);
  std::string s(buf, len); free(buf); return s;
}

static std::string unparseStmt(Context& ctx, const Statement * s)
{
  char * buf = nullptr; size_t len = 0;
  FILE * f = open_memstream(&buf, &len);
  s->unparse(ctx, f);
  fclose(f);
  std::string r(buf, len); free(buf); return r;
}

static std::string symFlags(const Symbol& s)
{
  std::string f;
  // safety() is "_safety || _locked": report both readings
  if (s.safety()) f.push_back('S');
  if (s.locked()) f.push_back('L');
  if (f.empty()) f = "-";
  return f;
}

static std::string symType(const Symbol& s)
{
  std::string o = typeStr(s);
  if (s.major() == Type::ROWTYPE) o += declStr(s.tuple_decl());
  return o;
}

static std::string dump(Context& ctx, bool withfn)
{
  std::string o = "dump depth=" + std::to_string(ctx.verifControlDepth())
    + " lvl=" + std::to_string(ctx.execLevel())
    + " brk=" + std::to_string((int)ctx.breakCondition())
    + " cont=" + std::to_string((int)ctx.continueCondition())
    + " ret=" + std::to_string((int)ctx.returnCondition())
    + " backed=" + std::to_string(ctx.verifBackedSymbols())
    + " parsing=" + std::to_string((int)ctx.parsing())
    + " alloc=" + std::to_string(ctx.allocationCount())
    + " live=" + std::to_string((long)Context::verif_live.load())
    + " nsym=" + std::to_string(ctx.verifSymbolCount());
  size_t n = ctx.verifSymbolCount();
  for (unsigned i = 0; i < n; ++i)
  {
    Symbol& s = ctx.getSymbol(i);
    o += " V:" + hexenc(s.name()) + ":" + symType(s) + ":" + symFlags(s) + ":" + ser(ctx.loadVariable(i));
  }
  if (withfn)
  {
    size_t cached = 0;
    for (const FunctorManager::Entry& e : ctx.functorManager().declarations())
    {
      std::string ps;
      for (const Symbol& p : e.functor->params) { if (!ps.empty()) ps += ","; ps += symType(p); }
      if (ps.empty()) ps = "-";
      std::string body = "NULLBODY";
      if (e.functor->body && e.functor->ctx) body = hexenc(unparseStmt(*e.functor->ctx, e.functor->body));
      size_t nc = 0; for (Context * c : e.ctx_cache) { (void)c; ++nc; }
      cached += nc;
      o += " F:" + hexenc(e.functor->name) + ":" + std::to_string(e.functor->params.size()) + ":" + ps + ":" + typeStr(e.functor->returns) + ":" + body + ":" + std::to_string(nc);
    }
    o += " cached=" + std::to_string(cached) + " nfn=" + std::to_string(ctx.functorManager().declarations().size());
  }
  return o;
}

static std::string runResult(Ctx& c, const char * head)
{
  std::string o = head;
  c.out.truncated = false;
  o += " out=" + hexenc(c.out.take());
  o += " steps=" + std::to_string(g_steps) + " intr=" + std::to_string((int)g_interrupted);
  if (c.out.truncated) o += " trunc=1";
  return o;
}

// rendering of a returned value exactly as the bloc command prints it (apps/main.cpp: output()), built from the
// library's own readable* functions: the twin of the CLI for C19
static std::string cliRender(Value * val)
{
  std::string o;
  if (val->isNull()) return Value::STR_NIL;
  if (val->type().level() == 0)
  {
    switch (val->type().major())
    {
    case Type::BOOLEAN: o = Value::readableBoolean(*(val->boolean())); break;
    case Type::INTEGER: o = Value::readableInteger(*(val->integer())); break;
    case Type::NUMERIC: o = Value::readableNumeric(*(val->numeric())); break;
    case Type::LITERAL: o = *val->literal(); break;
    case Type::ROWTYPE: o = Value::readableTuple(*(val->tuple())); break;
    case Type::IMAGINARY: o = Value::readableImaginary(*(val->imaginary())); break;
    default: break;
    }
  }
  return o;
}

static std::string g_last_rets;
static std::string retValue(Context& ctx)
{
  Value * v = ctx.dropReturned();
  g_last_rets = "none";
  if (!v) return "none";
  std::string s = ser(*v);
  g_last_rets = hexenc(cliRender(v));
  delete v;
  return s;
}

static void freeCtx(const std::string& id)
{
  auto it = g_ctx.find(id);
  if (it == g_ctx.end()) return;
  Ctx& c = it->second;
  for (auto s : c.istmts) delete s;
  delete c.iparser; delete c.ireader;
  delete c.ctx; c.out.close_();
  g_ctx.erase(it);
}

static void resetAll()
{
  for (auto& e : g_expr) delete e.second;
  g_expr.clear();
  for (auto& p : g_prog) delete p.second;
  g_prog.clear();
  while (!g_ctx.empty()) freeCtx(g_ctx.begin()->first);
  g_safe.clear(); g_mon_events.clear(); g_mon_safety = false;
  g_budget = -1; g_steps = 0; g_interrupted = false; g_run_root = nullptr;
  g_skip = false;
}

static void beginRun(Context * root, long budget)
{
  g_budget = budget; g_steps = 0; g_interrupted = false; g_run_root = root;
}

static void endRun(Context * root)
{
  if (g_interrupted && root) root->returnCondition(false);
  g_run_root = nullptr;
}

static void doOp(const std::vector<std::string>& f)
{
  const std::string& op = f[0];
  if (op == "reset-skip") { g_skip = false; reply("ok"); return; }
  if (op == "vmodmark")
  {
    // phase marker in the verification module's event log
    const char * lp = getenv("VMOD_LOG");
    if (lp) { FILE * lf = fopen(lp, "a"); if (lf) { fputs("MARK\n", lf); fclose(lf); } }
    reply("ok"); return;
  }
  if (g_skip) { fputs("R skipped\n", stdout); return; }
  if (op == "require")
  {
    // require PREFIX: unless the previous reply starts with PREFIX, every remaining op of the case is skipped
    std::string last = g_last_reply;
    if (last.compare(0, f[1].size(), f[1]) != 0) g_skip = true;
    reply(g_skip ? "unmet" : "met");
    return;
  }
  if (op == "new")
  {
    freeCtx(f[1]);      // an id that is reused inside one case: the previous context must not be leaked (with its descriptors)
    Ctx c; c.out.open(); c.ctx = new Context(c.out.fd, c.out.fd);
    if (f.size() > 2 && f[2] == "1") c.ctx->trusted(true);
    g_ctx[f[1]] = c; reply("ok");
  }
  else if (op == "clone")
  {
    if (f[1] != f[2]) freeCtx(f[2]);
    Ctx& s = C(f[1]); Ctx c; c.out.open(); c.ctx = s.ctx->clone(c.out.fd, c.out.fd);
    g_ctx[f[2]] = c; reply("ok");
  }
  else if (op == "trust") { C(f[1]).ctx->trusted(f[2] == "1"); reply("ok"); }
  else if (op == "purge") { C(f[1]).ctx->purge(); reply("ok"); }
  else if (op == "free") { freeCtx(f[1]); reply("ok"); }
  else if (op == "reg")
  {
    VParser vp(f[3]); Type t = vp.type();
    try { C(f[1]).ctx->registerSymbol(hexdec(f[2]), t); reply("ok"); }
    catch (ParseError& pe) { reply(perr(pe)); }
  }
  else if (op == "set")
  {
    // set C NAME VALUE [opaque]: registers the symbol with the value's type (or leaves an
    // existing registration alone when "opaque" is given), then stores the value.
    Context& ctx = *C(f[1]).ctx; std::string name = hexdec(f[2]);
    VParser vp(f[3]); Value v = vp.value();
    bool opaque = f.size() > 4 && f[4] == "opaque";
    try
    {
      Symbol * s = ctx.findSymbol(name);
      if (!s || !opaque)
      {
        if (opaque) s = &ctx.registerSymbol(name, Type());
        else if (v.type().major() == Type::ROWTYPE && !v.isNull())
        {
          if (v.type().level() > 0) s = &ctx.registerSymbol(name, v.collection()->table_decl(), v.type().level());
          else s = &ctx.registerSymbol(name, v.tuple()->tuple_decl(), 0);
        }
        else s = &ctx.registerSymbol(name, v.type());
      }
      ctx.parsingEnd(); // registerSymbol outside a parse may have backed up a symbol: commit it
      ctx.storeVariable(s->id(), std::move(v));
      reply("ok");
    }
    catch (ParseError& pe) { reply(perr(pe)); }
    catch (RuntimeError& re) { reply(rerr(re)); }
  }
  else if (op == "get")
  {
    Context& ctx = *C(f[1]).ctx; Symbol * s = ctx.findSymbol(hexdec(f[2]));
    if (!s) reply("none"); else reply("val " + ser(ctx.loadVariable(s->id())) + " sym=" + symType(*s) + " flags=" + symFlags(*s));
  }
  else if (op == "dump") { reply(dump(*C(f[1]).ctx, !(f.size() > 2 && f[2] == "nofn"))); }
  else if (op == "parse" || op == "parsef")
  {
    // parse C P TEXT [fragspec]
    Ctx& c = C(f[1]);
    auto old = g_prog.find(f[2]); if (old != g_prog.end()) { delete old->second; g_prog.erase(old); }
    try
    {
      Executable * x;
      if (op == "parsef") { FragReader r(hexdec(f[3]), f[4]); x = Parser::parse(*c.ctx, r); }
      else { StringReader r(hexdec(f[3])); x = Parser::parse(*c.ctx, r); }
      g_prog[f[2]] = x; reply("ok n=" + std::to_string(x->statements().size()));
    }
    catch (ParseError& pe) { reply(perr(pe)); }
  }
  else if (op == "cparse")
  {
    Ctx& c = C(f[1]);
    auto old = g_prog.find(f[2]); if (old != g_prog.end()) { delete old->second; g_prog.erase(old); }
    bloc_parsing_position pos = { -1, -1 };
    std::string text = hexdec(f[3]);
    bloc_executable * x = bloc_parse_executable(reinterpret_cast<bloc_context*>(c.ctx), text.c_str(), &pos);
    if (x) { g_prog[f[2]] = reinterpret_cast<Executable*>(x); reply("ok n=" + std::to_string(g_prog[f[2]]->statements().size())); }
    else reply("perr " + std::to_string(bloc_errno()) + " " + std::to_string(pos.lno) + " " + std::to_string(pos.pno) + " " + hexenc(bloc_strerror() ? bloc_strerror() : "<NULL>"));
  }
  else if (op == "run" || op == "crun" || op == "run2")
  {
    // run C P [budget] ; run2 C P [budget]: run program P (compiled elsewhere) in context C
    Ctx& c = C(f[1]);
    auto it = g_prog.find(f[2]); if (it == g_prog.end()) throw vc::HErr("no prog");
    long budget = f.size() > 3 ? atol(f[3].c_str()) : -1;
    Executable * x = it->second;
    Context * root = (op == "run2") ? c.ctx : &x->context();
    beginRun(root, budget);
    std::string res;
    try
    {
      if (op == "crun")
      {
        bloc_bool ok = bloc_execute(reinterpret_cast<bloc_executable*>(x));
        if (ok) res = "ok"; else res = "rerr " + std::to_string(bloc_errno()) + " " + hexenc(bloc_strerror() ? bloc_strerror() : "<NULL>");
      }
      else if (op == "run2") { Executable::run(*c.ctx, x->statements()); res = "ok"; }
      else { x->run(); res = "ok"; }
    }
    catch (RuntimeError& re) { res = rerr(re); }
    catch (...) { endRun(root); throw; }
    endRun(root);
    std::string o = runResult(c, res.c_str());
    o += " retv=" + retValue(*root);
    o += " rets=" + g_last_rets;
    if (!g_mon_events.empty()) { for (auto& e : g_mon_events) o += " mon=" + hexenc(e); g_mon_events.clear(); }
    reply(o);
  }
  else if (op == "freep") { auto it = g_prog.find(f[1]); if (it != g_prog.end()) { delete it->second; g_prog.erase(it); } reply("ok"); }
  else if (op == "unparse") { auto it = g_prog.find(f[1]); if (it == g_prog.end()) throw vc::HErr("no prog"); reply("text " + hexenc(unparseExec(it->second))); }
  else if (op == "save")
  {
    // the rendering of the interactive `save` command: every statement's unparse + ";\n"
    auto it = g_prog.find(f[1]); if (it == g_prog.end()) throw vc::HErr("no prog");
    std::string o;
    for (auto s : it->second->statements()) { o += unparseStmt(it->second->context(), s); o += ";\n"; }
    reply("text " + hexenc(o));
  }
  else if (op == "pexpr" || op == "cpexpr")
  {
    // pexpr C E TEXT : parse an expression as the tests do (interactive parser, "\n"+text+";")
    Ctx& c = C(f[1]);
    auto old = g_expr.find(f[2]); if (old != g_expr.end()) { delete old->second; g_expr.erase(old); }
    std::string text = hexdec(f[3]);
    if (op == "cpexpr")
    {
      bloc_expression * e = bloc_parse_expression(reinterpret_cast<bloc_context*>(c.ctx), text.c_str());
      if (!e) { reply("perr " + std::to_string(bloc_errno()) + " -1 -1 " + hexenc(bloc_strerror() ? bloc_strerror() : "<NULL>")); return; }
      g_expr[f[2]] = reinterpret_cast<Expression*>(e);
      bloc_type t = bloc_expression_type(reinterpret_cast<bloc_context*>(c.ctx), e);
      reply("ok type=" + std::string(1, majorChar((Type::TypeMajor)t.major)) + std::to_string(t.ndim));
      return;
    }
    StringReader r; r.reset(text).append(" ;");
    std::unique_ptr<Parser> p(Parser::createInteractiveParser(*c.ctx, r));
    try
    {
      Expression * e = p->parseExpression();
      g_expr[f[2]] = e;
      // static type exactly as parse-time checks see it
      c.ctx->parsingBegin();
      std::string st = typeStr(e->type(*c.ctx));
      if (e->type(*c.ctx).major() == Type::ROWTYPE) st += declStr(e->tuple_decl(*c.ctx));
      c.ctx->parsingEnd();
      reply("ok type=" + st);
    }
    catch (ParseError& pe) { reply(perr(pe)); }
  }
  else if (op == "eval" || op == "ceval")
  {
    Ctx& c = C(f[1]);
    auto it = g_expr.find(f[2]); if (it == g_expr.end()) throw vc::HErr("no expr");
    beginRun(c.ctx, f.size() > 3 ? atol(f[3].c_str()) : -1);
    std::string res;
    try
    {
      if (op == "ceval")
      {
        bloc_value * v = bloc_evaluate_expression(reinterpret_cast<bloc_context*>(c.ctx), reinterpret_cast<bloc_expression*>(it->second));
        if (v) res = "val " + ser(*reinterpret_cast<Value*>(v));
        else res = "rerr " + std::to_string(bloc_errno()) + " " + hexenc(bloc_strerror() ? bloc_strerror() : "<NULL>");
      }
      else
      {
        Value& v = it->second->value(*c.ctx);
        res = "val " + ser(v) + " rets=" + hexenc(cliRender(&v));
      }
    }
    catch (RuntimeError& re) { res = rerr(re); }
    catch (...) { endRun(c.ctx); c.ctx->purgeWorkingMemory(); throw; }
    endRun(c.ctx);
    c.ctx->purgeWorkingMemory();
    res += " out=" + hexenc(c.out.take()) + " intr=" + std::to_string((int)g_interrupted);
    reply(res);
  }
  else if (op == "freee") { auto it = g_expr.find(f[1]); if (it != g_expr.end()) { delete it->second; g_expr.erase(it); } reply("ok"); }
  else if (op == "eunparse")
  {
    Ctx& c = C(f[1]); auto it = g_expr.find(f[2]); if (it == g_expr.end()) throw vc::HErr("no expr");
    reply("text " + hexenc(it->second->unparse(*c.ctx)));
  }
  else if (op == "istmt")
  {
    // istmt C TEXT [budget]: CLI-like route: interactive parser, parseStatement, execute chain
    Ctx& c = C(f[1]);
    long budget = f.size() > 3 ? atol(f[3].c_str()) : -1;
    // a parser that has seen the end of its stream must not be reused (the CLI re-creates it as well): one parser per fed text
    delete c.iparser; c.iparser = nullptr;
    if (!c.ireader) c.ireader = new StringReader();
    c.ireader->reset(hexdec(f[2])).append("\n");
    c.iparser = Parser::createInteractiveParser(*c.ctx, *c.ireader);
    std::string res; int nst = 0;
    beginRun(c.ctx, budget);
    for (;;)
    {
      Statement * s = nullptr;
      try
      {
        // skip separating newlines as cli does
        while (c.iparser->front() && c.iparser->front()->code == Parser::NewLine) c.iparser->pop();
        s = c.iparser->parseStatement();
      }
      catch (ParseError& pe)
      {
        if (pe.no == EXC_PARSE_EOF) { if (res.empty()) res = "ok"; break; }
        res = perr(pe); c.iparser->clear(); break;
      }
      ++nst;
      const Statement * r = s; bool failed = false;
      while (r)
      {
        try { r = r->execute(*c.ctx); }
        catch (RuntimeError& re) { res = rerr(re); c.ctx->onRuntimeError(); failed = true; break; }   // as apps/cli_parser.cpp does
      }
      c.istmts.push_back(s);
      if (c.ctx->returnCondition()) { c.ctx->returnCondition(false); res = failed ? res : "ok"; res += " returned=" + retValue(*c.ctx); break; }
      if (failed) break;
    }
    g_run_root = nullptr;
    std::string o = runResult(c, res.c_str()) + " nst=" + std::to_string(nst);
    if (!g_mon_events.empty()) { for (auto& e : g_mon_events) o += " mon=" + hexenc(e); g_mon_events.clear(); }
    reply(o);
  }
  else if (op == "tokens")
  {
    // tokens TEXT FRAGSPEC: token stream seen by the parser
    OutFd o; o.open();
    {
      Context ctx(o.fd, o.fd);
      FragReader r(hexdec(f[1]), f[2]);
      std::unique_ptr<Parser> p(Parser::createInteractiveParser(ctx, r));
      p->state(Parser::Parsing);
      std::string res = "tok";
      size_t n = 0;
      try
      {
        for (;;)
        {
          TokenPtr t = p->pop();
          if (!t) break;
          res += " " + std::to_string(t->code) + ":" + hexenc(t->text);
          if (++n > 200000) break;
        }
      }
      catch (ParseError& pe) { res += " end=" + std::to_string((int)pe.no); }
      res += " reads=" + std::to_string(r.reads);
      reply(res);
    }
    o.close_();
  }
  else if (op == "mon") { g_mon_safety = (f[1] == "safety" && f[2] == "on"); g_safe.clear(); reply("ok"); }
  else if (op == "out") { reply("out " + hexenc(C(f[1]).out.take())); }
  else if (op == "live") { reply("live " + std::to_string((long)Context::verif_live.load())); }
  else if (op == "unban") { bloc_unban_plugin(hexdec(f[1]).c_str()); reply("ok"); }
  else if (op == "clearperm") { bloc_clear_plugin_permissions(); reply("ok"); }
  else if (op == "reset") { resetAll(); reply("ok"); }
  else if (op == "resetstop") { C(f[1]).ctx->returnCondition(false); reply("ok"); }
  else if (op == "errnos")
  {
    reply("errnos USER=" + std::to_string((int)EXC_RT_USER_S) + " OUT_OF_RANGE=" + std::to_string((int)EXC_RT_OUT_OF_RANGE)
          + " DIVIDE_BY_ZERO=" + std::to_string((int)EXC_RT_DIVIDE_BY_ZERO) + " INDEX_RANGE=" + std::to_string((int)EXC_RT_INDEX_RANGE_S)
          + " RECURSION_LIMIT=" + std::to_string((int)EXC_RT_RECURSION_LIMIT) + " STRING_TO_NUM=" + std::to_string((int)EXC_RT_STRING_TO_NUM)
          + " TYPE_MISMATCH=" + std::to_string((int)EXC_RT_TYPE_MISMATCH_S) + " INV_EXPRESSION=" + std::to_string((int)EXC_RT_INV_EXPRESSION)
          + " CONST_VIOLATION=" + std::to_string((int)EXC_RT_CONST_VIOLATION_S) + " VARYING_COLLECTION=" + std::to_string((int)EXC_RT_VARYING_COLLECTION)
          + " NO_RETURN_VALUE=" + std::to_string((int)EXC_RT_NO_RETURN_VALUE) + " FUNC_ARG_TYPE=" + std::to_string((int)EXC_RT_FUNC_ARG_TYPE_S)
          + " MEMB_ARG_TYPE=" + std::to_string((int)EXC_RT_MEMB_ARG_TYPE_S) + " OUT_OF_DIMENSION=" + std::to_string((int)EXC_RT_OUT_OF_DIMENSION)
          + " INTERNAL_ERROR=" + std::to_string((int)EXC_RT_INTERNAL_ERROR_S) + " P_EOF=" + std::to_string((int)EXC_PARSE_EOF));
  }
  else throw vc::HErr("unknown op " + op);
}

int main(int, char **)
{
  std::set_terminate(on_terminate);
  signal(SIGABRT, on_abort);
  verif_set_step(step_hook);
  setvbuf(stdout, nullptr, _IOFBF, 1 << 16);
  std::string line;
  while (std::getline(std::cin, line))
  {
    if (line.empty()) continue;
    std::vector<std::string> f = split(line);
    if (f[0] == "BEGIN") { g_case = f.size() > 1 ? f[1] : "-"; printf("BEGIN %s\n", g_case.c_str()); fflush(stdout); continue; }
    if (f[0] == "END") { resetAll(); printf("DONE %s\n", g_case.c_str()); fflush(stdout); g_case = "-"; continue; }
    if (f[0] == "QUIT") break;
    try { doOp(f); }
    catch (ParseError& pe) { reply("leak-perr " + perr(pe)); }
    catch (RuntimeError& re) { reply("leak-rerr " + rerr(re)); }
    catch (vc::HErr& e) { reply(std::string("harness-error ") + hexenc(e.what())); }
    catch (std::exception& e) { reply("foreign " + hexenc(demangle(typeid(e).name())) + " " + hexenc(e.what())); }
    catch (...) { reply("foreign " + hexenc("unknown") + " -"); }
  }
  resetAll();
  PluginManager::destroy();
  return 0;
}
