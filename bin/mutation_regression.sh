#!/bin/bash
# usage: mutation_regression.sh [glob of seeded ids, default '*']
# For every kept seeded change: apply it to /repo's working tree, run the quick tier of the check of its property, restore the
# tree; prints DETECTED / MISSED / DOES-NOT-APPLY per change.  /repo must be clean and must not be used by anything else meanwhile.
set -u
export VERIF_OUT=/verif/scratch/mutant_out; mkdir -p $VERIF_OUT   # keep the committed evidence/ for runs on the unchanged tree
VERIF=$(cd "$(dirname "$0")/.." && pwd)
PAT=${1:-*}
[ -z "$(git -C /repo status --porcelain --untracked-files=no)" ] || { echo "/repo has local changes"; exit 2; }
for d in "$VERIF"/seeded/$PAT/; do
  id=$(basename "$d"); prop=${id%%-*}
  # a change written against one property may be observable only through another property's check (file `checks` names it)
  [ -f "$d/checks" ] && prop=$(cat "$d/checks")
  if ! git -C /repo apply --check "$d/patch.diff" 2>/dev/null; then echo "$id DOES-NOT-APPLY"; continue; fi
  git -C /repo apply "$d/patch.diff"
  out=$("$VERIF/check" "$prop" --tier quick 2>&1); rc=$?
  git -C /repo checkout -- .
  sig=$(echo "$out" | grep -m1 "signature:" | cut -c1-160)
  if [ $rc -eq 1 ]; then echo "$id DETECTED $sig"; elif [ $rc -eq 0 ]; then echo "$id MISSED"; else echo "$id HARNESS-FAILURE rc=$rc $(echo "$out" | grep -m1 HARNESS | cut -c1-200)"; fi
done
"$VERIF/bin/build.sh" asan >/dev/null
