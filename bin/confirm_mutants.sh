#!/bin/bash
# usage: confirm_mutants.sh <mutant_dir>...   (each has patch.diff + demo.sh)
# Confirms in a scratch worktree of /repo HEAD (outside /repo and /verif): HEAD builds, ctest passes, demo passes;
# with the patch: builds, ctest passes (121 test cases / 17 entries), demo FAILS.  Prints one line per mutant.
set -u
W=/tmp/confirm_wt_$$
git -C /repo worktree add -q --detach $W HEAD || exit 2
trap 'git -C /repo worktree remove --force $W; rm -rf $W' EXIT
B=$W/_b
cmake -G Ninja -S $W -B $B -DBUILD_TESTING=ON >/dev/null 2>&1
# explicit targets: the default target would also compile modules that must never be built here (sys: shell access)
TARGETS="blocc bloc bloc_file bloc_csv bloc_sqlite3 bloc_utf8 test_parse_constant test_operators_integer test_operators_numeric test_operators_type_mixing test_operators_boolean test_operators_relational test_math_constant test_tuple test_table test_math_builtin test_statement_loop perf_hash perf_prim test_exception_handling test_function test_member_expression test_clone test_c_api"
bld() { cmake --build $B -j16 --target $TARGETS >$W/build.log 2>&1; }
bld || { echo "HEAD build failed"; tail $W/build.log; exit 2; }
ctest --test-dir $B -j8 2>&1 | grep -q "100% tests passed" || { echo "HEAD ctest failed"; exit 2; }
for M in "$@"; do
  name=$(basename $(dirname $M))/$(basename $M)
  ( cd $M && bash ./demo.sh $B $W >/tmp/demo_head_$$.log 2>&1 ); rc_head=$?
  if ! git -C $W apply $M/patch.diff 2>/tmp/apply_$$.log; then echo "$name: PATCH-DOES-NOT-APPLY"; continue; fi
  if ! bld; then echo "$name: BUILD-FAILS"; git -C $W checkout -- .; bld; continue; fi
  t=$(ctest --test-dir $B -j8 2>&1 | grep "tests passed" )
  ( cd $M && bash ./demo.sh $B $W >/tmp/demo_mut_$$.log 2>&1 ); rc_mut=$?
  git -C $W checkout -- . ; bld
  ok=NO; [[ $rc_head == 0 && $rc_mut != 0 && "$t" == *"100% tests passed"* ]] && ok=YES
  echo "$name: confirmed=$ok demo_on_head=$rc_head demo_on_mutant=$rc_mut ctest='$t'"
done
rm -f /tmp/demo_head_$$.log /tmp/demo_mut_$$.log /tmp/apply_$$.log
