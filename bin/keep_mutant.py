#!/usr/bin/env python3
"""keep_mutant.py <src_dir> <seed_id> <property> <detected: yes|no|n/a> "<what it needs>" "<which check/signature caught it>"
Copies patch.diff, the demonstration and notes into /verif/seeded/<seed_id>/ and writes meta.json."""
import sys, os, shutil, json, subprocess
src, sid, prop, det, needs, caught = sys.argv[1:7]
dst = os.path.join("/verif/seeded", sid)
os.makedirs(dst, exist_ok=True)
for f in os.listdir(src):
    p = os.path.join(src, f)
    if os.path.isfile(p) and os.path.getsize(p) < 200000:
        shutil.copy(p, dst)
head = subprocess.run(["git", "-C", "/repo", "rev-parse", "--short", "HEAD"], capture_output=True, text=True).stdout.strip()
meta = {"property": prop, "origin": "independent sub-agent given only the property text and a scratch worktree",
        "needs_to_manifest": needs,
        "confirmed": {"base_commit": head, "how": "bin/confirm_mutants.sh: scratch worktree of /repo HEAD; HEAD builds, ctest 100% (17 entries/121 cases), demo.sh exits 0; "
                      "with patch.diff applied: builds, ctest 100%, demo.sh exits non-zero"},
        "detected_by_quick_check": det, "caught_by": caught,
        "apply": "git -C /repo apply /verif/seeded/%s/patch.diff ; ./check %s ; git -C /repo checkout -- ." % (sid, prop)}
json.dump(meta, open(os.path.join(dst, "meta.json"), "w"), indent=1)
print("kept", dst)
