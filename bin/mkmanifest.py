#!/usr/bin/env python3
"""Generates /verif/MANIFEST.json from the table below (single source of truth for what is claimed)."""
import json, os, subprocess
VERIF = os.path.dirname(os.path.dirname(os.path.abspath(__file__)))
ALL = ["C%02d" % i for i in range(1, 20)]

CHECKS = {
 "C02": dict(
   technique="runtime type monitor (static type taken under parsingBegin vs type of the evaluated value) over the construct matrix + batch/stepwise twin execution + statement-boundary monitor of constrained symbols (step hook) + ASan/UBSan",
   text="(a) every operator/builtin/member over ~110 operands of defined static type (typed variables, literals, typed constructors) is compiled and "
        "evaluated twice; the run-time type (major, dimension, tuple declaration) must equal the non-opaque static type. (b) generated programs "
        "(loops/errors/functions), retyping programs and programs that retype a variable several times inside compiled-but-never-executed blocks are "
        "run as one unit and one top-level statement at a time in a twin context; if the unit runs without error the stepwise run must be accepted, "
        "error-free and print the same. (c) programs and host stores that try to change the major type of a '$' variable or an active for/forall "
        "iterator (literals, opaque function results, inside loops/handlers, '$' iterators, nested reuse of an iterator) run under a step-hook monitor "
        "that records every constrained symbol's type at every statement boundary. Added later: (d) structure sub-check (14 writer statements x 12 reader expressions: static type vs value after an accepted or refused write into a container), (e) opaque re-assignment units that must compile, run and equal their stepwise run, (f) a symbol-type-vs-value monitor on every twin dump, (g) stdin readers (read/readln into typed variables) run by the bloc binary.",
   note="trusted: harness type serialisation; opaque static types (undefined, structure-less tuple, table of undefined) only constrain what they state; "
        "user functions' declared types are not relied upon; 6 families of known findings (numeric built-ins/operators whose static type ignores null or complex operands)",
   design="4/C02"),
 "C01": dict(
   technique="sanitizer oracle (ASan+UBSan, fatal reports) + crash/foreign-exception monitor over construct matrix, harvested/mutated programs, random bytes, three entry routes; libFuzzer in the thorough tier",
   text="Every operator, builtin and member is applied to a pool of ~75 values of every type (typed/untyped nulls, boundary integers and doubles, 8-bit "
        "strings, bytes, tuples, nested tables) through typed variables, opaque variables and opaque function results so that both the compile-time "
        "and the run-time type checks are reached; the repository's own texts (tests, manuals, msgdb) are harvested at run time, token-mutated and "
        "truncated; random and bit-flipped byte strings including 1023/1024-byte lines are fed as well. Each text goes through Parser::parse/"
        "Executable::run, the C API, the interactive statement route, a fragmenting reader, and (sampled) the real bloc binary. A case holds iff it "
        "ends in completed/ParseError/RuntimeError with no sanitizer report, signal, std::terminate or foreign exception. The thorough tier adds six "
        "coverage-guided libFuzzer processes (clang build of the working tree) whose artifacts are re-judged by the same monitor.",
   note="trusted: gcc sanitizer runtimes; out-of-domain (counted): allocation-size-too-big/OOM/bad_alloc/length_error when the case involves a magnitude > 2^20; "
        "runaway programs are interrupted after 20000 statements (inconclusive, capped at 2%)",
   design="4/C01"),
 "C03": dict(
   technique="reference-model monitor over bit-exact evaluations + ASan/UBSan",
   text="Runs the real interpreter (ASan+UBSan build of the working tree) on an exhaustively enumerated integer boundary lattice squared x every "
        "arithmetic/bitwise operator, all shift displacements -130..130, a double lattice squared, mixed int/decimal pairs, int()/num() "
        "conversions and seeded random 64-bit patterns; each result is compared bit-exactly with a small reference model of the manual's rules; "
        "catchable errors are confirmed catchable by a script handler. Held on N evaluations, not a proof.",
   note="trusted: python int/float arithmetic, glibc pow/fmod, gcc sanitizer runtimes; decimal zero divisors, sign of zero results and ** with "
        "negative integer exponent are only checked for totality (manual silent)",
   design="4/C03"),
 "C04": dict(
   technique="complete enumeration by execution against the Kleene tables (online monitor) + ASan/UBSan",
   text="Every (operator, lhs, rhs) with operands drawn from {true,false,null} x 8 ways of producing them (constant, constructor, typed/untyped/"
        "opaque variable, function result, table element, tuple item) is executed by the real interpreter in five forms (eval twice, a 3-iteration "
        "loop with a loop-dependent sibling operand on either side, if and while condition), in a fresh context and in a shared long-lived context, "
        "and compared with the Kleene tables; relational operators over five operand types with every kind of null must yield null. The finite "
        "space is enumerated completely on every run. Also: every operand as a bare if / elsif / while condition (variable assigned in the body, function result) and `matches` among the relational operators of strings.",
   note="trusted: the 15-line Kleene model, the harness dump; truth values of relational operators on non-null operands are not asserted (outside the statement)",
   design="4/C04"),
 "C05": dict(
   technique="invariant monitor over hooked deep dumps (before/after every expression and every statement, with the syntactic target set) + repeated-evaluation equality + alias scenarios + ASan/UBSan",
   text="(1) every unary/binary/sampled ternary construct over ~75 pool values held in typed and opaque variables, plus in-place members applied through 15 "
        "kinds of composite receivers (str(x), (x + null), substr, raw, function result, constructor elements, .at, @k, trim of null ...), is evaluated "
        "twice between deep dumps of all ~150 variables: only the root variable of a receiver chain may change, no flag may remain, and a pure node "
        "must give deep-equal results twice. (2) generated programs are executed one top-level statement at a time; each dump may differ from the "
        "previous one only on the statement's targets, and the statement's unparse text must be the same before and after it ran. (3) alias scenarios: "
        "13 copy routes (assignment, chain, function result/parameter/return, tab/tup constructors, put/concat/insert, forall copy, null filled by "
        "concat then read) x in-place mutators x side mutated, for strings, bytes, tables, string tables, nested tables and tuples.",
   note="trusted: harness dump; random/getsys/getenv, stdin readers and module objects excluded (objects are shared by reference by design)",
   design="4/C05"),
 "C10": dict(
   technique="model-based runtime monitor (python reference semantics + round-trip relations) over seeded argument lattices + ASan/UBSan",
   text="Every string/bytes/conversion builtin named in the property (and at/put/insert/concat/count on strings and bytes) is called by the real "
        "interpreter on 8-bit-clean byte strings (empty, blank, NUL/high bytes, 1022-1025 bytes, numeric-looking text) with positions/counts from a "
        "boundary lattice and typed/untyped nulls; results are judged by conservative sub-oracles (exact slice in the documented domain, otherwise "
        "'BLOC error or contiguous part of the argument'; b64, int/str, num/str round trips; isnum<=>num; OUT_OF_RANGE for codes outside 0..255; "
        "DJB hash), argument variables are dumped after each call batch and must be unchanged, ASan+UBSan watch for out-of-bounds reads. Also: the slicing/trim/case/base64/hash built-ins on temporaries, chr() of decimals, padding and bucket-range oracles for hex/hash.",
   note="trusted: python bytes semantics as reference; results for negative/oversized positions are only required to be a BLOC error or a contiguous part "
        "of the input (manual is one line per builtin); known findings: num(str(d))/isnum(str(d)) for subnormal d",
   design="4/C10"),
 "C11": dict(
   technique="twin-context runtime monitor: hooked deep dump before/after the rejected text + probe program in the disturbed context vs an undisturbed twin + ASan/UBSan",
   text="For generated prefixes (2-3 functions incl. overloads, all variable kinds, '$' variables, tables) a family of valid continuation programs "
        "(type-changing assignments, loops over the prefix's tables, '$' iterators, handlers, new functions, redefinitions of the first/middle/last "
        "declared function, another generated program over the same names) is corrupted at token positions (every truncation point, deletions, keyword/"
        "operator replacements, unbalancing insertions) and kept when the parser rejects it; through Parser::parse and bloc_parse_executable. The dump "
        "of the context after the rejection (values, types, tuple declarations, safety/lock flags, every function's signature and unparsed body, control "
        "depth, exec level, stop flags, pending symbol backups) must equal the dump before, and a generated probe (calls every function, loops, "
        "handlers) must be accepted, behave and leave the same state as in a twin context that never saw the rejected text. Also: a statement-at-a-time route (single refused statements after a prefix that redefines a function), tuple variables and constrained variables re-typed by the refused text, and refused `include` statements whose source redefines functions.",
   note="trusted: harness dump; names introduced only by the rejected text are projected out; interactive statement-at-a-time delivery of R is not used "
        "(valid leading statements would legitimately execute)",
   design="4/C11"),
 "C12": dict(
   technique="twin-execution runtime monitor: original vs program reloaded from its own unparse/save text (acceptance, text fixed point, output, outcome, final dump) + ASan/UBSan",
   text="Sources: every pair of integer/boolean operators in left nesting, right nesting and without source parentheses, unary/binary mixes, comparison "
        "chains, parenthesised expressions followed by members/@rank, ~60 literal forms (escapes, doubled quotes, hex up to 0xffffffffffffffff, exponents, "
        ".5, 16/17-digit decimals, DBL_MAX/denormal, typed nulls, constructors), every statement form (chained statements, for step/asc/desc, forall, "
        "typed declarations, handlers, functions with typed parameters and overloads, returns), generated programs (loops/errors/functions) and the "
        "repository's own texts. For each: compile, take Executable::unparse and the `save` rendering, compile each in a fresh context (must be "
        "accepted), re-render (must equal), run original and reloaded in fresh contexts and compare output, error, returned value and final variables. Also: every statement form as head of a `,` chain.",
   note="trusted: harness reproduces the save rendering of apps/cli_parser.cpp; texts whose output is not a function of the text (random, getsys, getenv) are excluded",
   design="4/C12"),
 "C13": dict(
   technique="differential runtime monitor on the real scanner: token streams / compiled text / output under fragmented delivery vs whole-line delivery + ASan/UBSan",
   text="For generated programs, the repository's texts and lexeme-rich statements (two-character operators, string escapes and doubled quotes, block/"
        "line/# comments, exponents, hex, long identifiers, '$' names, members, @rank): the token stream obtained through the public interactive parser "
        "is compared between whole-line delivery and a custom StreamReader cutting at every single byte position, at random multi-splits and at fixed "
        "fragment sizes (1..2048); compiled programs are compared (acceptance, error position, unparse text, output) for sampled deliveries; every "
        "lexeme kind is slid across offsets 1010..1031 of a long line (the scanner's 1023-byte read) with padding and with statement filler, the long "
        "line is compared with the one-statement-per-line layout of the same tokens, and CRLF vs LF through the built-in reader. Also: the reader behind `include`, CRLF vs LF for tokens spanning physical lines, and multi-line literals whose printed value follows from the text.",
   note="trusted: the custom reader strips CR like the built-in readers; the committed generated scanner lex._tokenizer.c is what is observed",
   design="4/C13"),
 "C16": dict(
   technique="complete enumeration by execution (one fresh process per history) with an observer module logging createObject + hooked dump for object values + ASan/UBSan",
   text="{trusted, untrusted} x 11 grant histories (never, granted, granted-used-then-cleared, granted-then-cleared, granted after a first refused "
        "compile, other module, prefix, longer name, empty name, upper-case name, re-granted after clear) x {module imported here, loaded earlier by a "
        "trusted context, not loaded} x 16 sites (top level, default/labelled constructor, function body called/uncalled, loop, handler, nested in "
        "tab/tup, copy constructor, method chain, typed parameter, dead branch, typed declaration, typed parameter/return declarations) x spellings "
        "(vmod, VMOD, Vmod) for the observer module vmod and for the real csv module, through Parser::parse and the C API, in the context and in a "
        "clone of it; plus import by path and include in every position. Decision function allowed = trusted or granted at compile time, compared "
        "with the create-event log (phase-marked) and the object values found in the dumps; allowed cases must really create (the check cannot pass "
        "by refusing everything). Also: the trust flag established by 0..3 trusted() calls, clones of allowed contexts, parenthesised/concatenated import paths.",
   note="trusted: vmod observer built from /verif/vmod against the working tree; a typed null (x:vmod) is not an object; upper/mixed-case spellings are not module names at all",
   design="4/C16"),
 "C15": dict(
   technique="state-machine model of API handles vs a pure-C executor, one process per call sequence under ASan+UBSan with LeakSanitizer asked after every failing call and at exit",
   text="Generated sequences of 20-200 C API calls (contexts, clones, purge, symbols, values of every type, assign_*, every typed accessor on every value, "
        "store/load, expressions, executables, execute/execute2, drop_returned, break/reset_stop, error record) respecting the documented preconditions, "
        "with failing texts interleaved (hand-written and token-mutated repository texts, runtime errors of every kind, a failing handler). A python "
        "model predicts each reply: accessors succeed exactly on the matching type with NULL data for nulls, stored values are what scripts see "
        "(typeof, equality) and script values are what the host loads (deep dump through the API only), failed parse/run return NULL/false with "
        "errno/strerror set, stop condition semantics, clone/execute2 behaviour, reads never consume variables; library-owned pointers are re-read "
        "after interleaved non-invalidating calls; LeakSanitizer is invoked after each rejected text (leak attributed to that text) and at exit. Also: tables of tuples through the typed accessors, in-place assignment through library-owned pointers followed by reads, returned values the host never takes.",
   note="trusted: gcc LeakSanitizer; expressions are terminated by a newline as tests/test_c_api.c does (bloc_parse_expression needs a terminator); errno 0 accepted for "
        "the end-of-input parse error; after store_variable the caller's value is only freed",
   design="4/C15"),
 "C17": dict(
   technique="offline checker over the observer modules' event log (create/destroy/method, phase-marked per statement) against a reference-graph model + liveness probes + ASan on a real-free pass",
   text="Generated programs create, copy, overwrite and drop object references of two observer modules through variables, tables (tab(n, ctor), put, "
        "concat, delete, at), tuples, function parameters/returns/locals (including a failing function and a local never returned), loops and forall; "
        "they run one top-level statement at a time with MARK lines in the module's log, each followed by ping() probes through every reference the "
        "model holds; then programs/contexts are released in one of five orders (incl. purge, clone then free original, clone-run-free). The checker "
        "demands: predicted number/order of constructor evaluations, no destroy in a phase where the model still reaches the object, every probe "
        "reaches exactly the predicted object, no method on a dead or foreign-module object, no second destroy, every created object destroyed once "
        "by the end, and exact argument values for typed methods. Half of the shards run in tombstone mode (stale use is recorded), half really free "
        "so that ASan sees use-after-free/double free itself. Also: assignments through forall iterators, forall over temporary tables, null-table receivers, and a clone that only reads the object variables it inherited (probes verified in clone and original).",
   note="trusted: the model predicts constructor evaluation order; only 'too early' and the final balance are asserted (temporaries and function locals are released lazily)",
   design="4/C17"),
 "C19": dict(
   technique="process twin: the real bloc binary (ASan+UBSan build) vs the same program run through the library in the harness; observed from outside the process (stdout, --out file, stderr, exit status)",
   text="Generated programs (G_model), programs returning every value type (incl. strings >= 80 bytes, tables, tuples, nulls), compile-time and run-time "
        "failing programs, programs printing $ARG for argument vectors with spaces/quotes/non-ASCII/option-looking words, and programs containing every "
        "source byte value 1..255 are run as `bloc file args`, `bloc - args` (stdin) with and without --out=; stdout/out-file bytes, the rendering "
        "of the returned value, exit status == 0 iff compiled and ran without unhandled error, non-empty stderr with the library's line:column for "
        "compile errors are compared with the library run. `bloc -e expr` is compared with evaluating the expression in the library. Programs fed to "
        "`bloc -i` on stdin are compared by marker lines, and `save` of the session is reloaded through `bloc file`. Also: MS-DOS formatted sources, interactive programs with several statements per line, and fixed interactive sessions (recovery after a failing loop header; save / clear / load / run).",
   note="trusted: harness rendering of returned values mirrors the documented CLI format (cliRender); interactive mode is only fed generated programs (never fuzz bytes: it has a shell escape); LD_LIBRARY_PATH contains only libblocc",
   design="4/C19"),
 "C18": dict(
   technique="reference-model / independent-reader monitors over generated module scripts (bytearray stream model, CPython sqlite3 and UTF-8 decoder, csv round trip) + ASan/UBSan on the real modules",
   text="Generated scripts use the real csv, file, sqlite3 and utf8 modules in a trusted context (scratch working directory); all data enters through "
        "host-stored variables and leaves through bit-exact dumps. csv: rows of 1..6 byte-string fields over an alphabet biased to separator, quote, "
        "CR, LF, space and 8-bit bytes, ~40 separator/quote pairs incl. 8-bit, CR/LF and random ones, both constructors; deserialize(serialize(row)) "
        "must give the row (and leave the argument unchanged), again when the record is cut after every LF and fed through deserialize/"
        "deserialize_next (flags TRUE..TRUE,FALSE); tuples of integer/decimal/boolean/string must give str() of each member. file: histories of "
        "1..12 write/read(string|bytes)/readln/seekset/seekcur/seekend/position/flush operations in ten open modes on files of 0..9000 bytes with "
        "sizes around 4096/8192 are mirrored on a bytearray model (every returned count, datum, position, errno) and the file is then read by "
        "python and compared byte for byte; stat size/type after close. sqlite3: 1..5 rows x 1..5 columns of integer/decimal/string/bytes/null "
        "(boundary integers, inf, -0.0, subnormals, strings with NUL and invalid UTF-8, empty bytes) inserted through exec(stmt,tuple), "
        "query(...returning), prepare/bind/execute and prepare/bind/<drop the tuple>/execute; read back by query(), query() with a bound key, "
        "prepare/execute/fetch, typeof(), and by CPython's sqlite3 from the same file. utf8: strings of code points from every plane/boundary; "
        "count/rawsize/string/empty/at(all)/substr/insert(code point|other object|itself)/remove/append/concat/copy against python's decoder over a "
        "boundary lattice of positions. Tolerance scripts call every method of every module with null, negative, huge and malformed arguments "
        "(invalid UTF-8, unbalanced quotes, closed handles, missing files, wrong tuple arity): value or BLOC error, no sanitizer report, no foreign exception. Bulk inserts through one prepared statement (bind/execute per row) are part of the sqlite3 histories.",
   note="trusted: python's bytearray/sqlite3/codecs as independent readers; glibc's initial position in a+ mode is not asserted; NaN is not bound; "
        "libsqlite3 is uninstrumented (its malloc/free/memcpy are intercepted); known finding: utf8 strings drop U+0000",
   design="4/C18"),
 "C14": dict(
   technique="ThreadSanitizer + ASan/UBSan over concurrent executions of shared compiled programs in clones (seeded yields at statement boundaries via the step hook) + single-context twin as reference for every clone",
   text="Scenarios (three hand-written families: nested calls/recursion/redefinition, handlers that assign and return, tables/strings/in-place "
        "members/forall/random; plus G_model generated functions and programs that read the inherited globals) are compiled once in an original "
        "context; 2..8 clones (also clones of clones) each run a list of the shared compiled programs through Executable::run(ctx, statements) or "
        "bloc_execute2, one thread per clone with its own output descriptor, while the original is kept (and runs programs itself on the main "
        "thread), purged or freed; functions and variables are redefined in one clone or in the original after cloning; programs/contexts are "
        "released in two orders. Each scenario runs concurrently under ThreadSanitizer and under ASan+UBSan, 2 (quick) or 4 repetitions with "
        "seeded yields/spins injected at statement boundaries by the step hook, which also logs a global relaxed counter per statement so that "
        "the thread-switch sequence (interleaving signature) is reported. Reference: for every clone and for the original a twin process in which "
        "the original alone runs that body's programs. Checked: per body results, returned values, output bytes, variable and function dump == "
        "twin; original untouched by the clones; no TSan report with a frame in /repo; no ASan/UBSan report or crash; live contexts == 0 at the end. Every scenario also carries `$` variables, and the answers of texts parsed after cloning are compared with the twin.",
   note="trusted: the twin defines what a clone must compute; TSan only sees races in the interleavings and code that ran (distinct_interleavings in the "
        "evidence); random() programs are run for the race detector only; unparsing a function body through a purged/freed original is not part of the property "
        "(function bodies are compared only while the original is intact)",
   design="4/C14"),
 "C06": dict(
   technique="reference-interpreter monitor (python model of the documented loop/conditional semantics) over generated programs + post-run invariant hooks (control stack, symbol flags) + ASan/UBSan",
   text="Loop headers are enumerated bounded-exhaustively (bounds in {-2..2, INT64_MIN..+2, INT64_MAX-2.., null} x steps {absent,1,2,3,0,-1,null,INT64_MAX} x "
        "{auto,asc,desc}, with and without break) and loop-heavy random programs (nested for/forall/while/if/begin with break/continue/return/raise, "
        "bodies that move the control variable, writes through forall iterators, nested traversal of one table, functions) are executed by the real "
        "interpreter under a 20000-statement budget; marker trace, outcome, returned value and final variables must equal the reference interpreter's, "
        "the control stack must be empty and no iterator constraint/table lock may remain (hooked dump), and a probe program must be able to retype "
        "former iterators, extend formerly iterated tables and open new loops. Interruption by the budget is a violation (the model bounds every run).",
   note="trusted: the python reference interpreter (documented behaviour only); not asserted: value of a for variable after its loop, decimal bounds, "
        "precedence between 'null bound' and 'step < 1', a body moving the control variable against the direction of progression",
   design="4/C06"),
 "C07": dict(
   technique="reference-interpreter monitor over error-placement enumeration and error-heavy generated programs, three entry routes, residue invariant hooks + probe program + ASan/UBSan",
   text="One failing operation (raise user/DIVIDE_BY_ZERO/OUT_OF_RANGE, 1/0, chr(300), index error, run-time type error through an opaque parameter, "
        "errors raised inside a called function's loop, failing argument evaluation) is placed at every position of 14 nestings (plain, for, forall, "
        "while, if, for-forall, begin inside a loop, a handler that raises again, loop headers and conditions, top-level loops) with 9 inner x 3 outer "
        "handler-name combinations, and error-heavy random programs are generated; each runs through Executable::run, bloc_execute and the "
        "statement-at-a-time (CLI-like) route. Which handler ran, error@1, the printed trace, the error reported to the host and final variables must "
        "equal the reference interpreter's; afterwards the hooked state must show control depth 0, exec level 0, no pending break/continue/return, "
        "no symbol flag, conserved live contexts, and a probe program (retyping iterators, extending tables, new loops) must run correctly. Also: header-error programs (14 loop/condition headers that fail at run time, also with non-catchable errors, x 7 wrappers x 3 routes) judged by residue + probe only.",
   note="trusted: python reference interpreter of the manual's Blocks/Raise sections; error@2 text is not asserted; the CLI route is an emulation of "
        "apps/cli_parser.cpp's statement loop through the public interactive parser (the real bloc -i is exercised by C19)",
   design="4/C07"),
 "C08": dict(
   technique="reference-interpreter monitor + metamorphic twin (call after history vs fresh context) + recursion ladder + live-context conservation hook + ASan/UBSan",
   text="Generated function sets (conditionally assigned locals read unconditionally, overloads by arity, table/string parameters mutated in place, "
        "locals named like the caller's variables, loops, handlers, calls of earlier functions) are driven by histories of 2-12 guarded calls "
        "including failing bodies and failing argument evaluation; prints, results, caller variables and outcome must equal the reference "
        "interpreter in which every call starts unset; independently a twin pair runs the same target call after a random history and in a fresh "
        "context and must agree; the recursion ladder checks depths 1,2,3,100,254,255 succeed and 256,257,300,1000 raise the recursion-limit error "
        "(direct and mutual recursion) leaving the context usable; after every run live contexts = root + parse contexts + cached contexts. Also: fixed twins: hand-written functions aimed at inherited state (nested self-calls in arguments, error record, unset locals, early returns from loops) with every history of one or two calls x every target call, and values that follow from the definitions for the pure ones.",
   note="trusted: python reference interpreter; declared parameter/return types are never relied upon (manual: not enforced); workers run with a 1 GiB stack",
   design="4/C08"),
 "C09": dict(
   technique="model-based runtime monitor: random container-operation sequences checked against a python list model + structural uniformity invariant on deep dumps + ASan/UBSan",
   text="Random sequences (8-25 steps) of at/put/insert/delete/concat/count on tables of integer, decimal, string, boolean, integer tables and "
        "tuples, @/set@/count on tuples and at/delete on strings/bytes are executed by the real interpreter with argument values of every class "
        "(matching, typed null, int/decimal mixable, untyped null, mismatching scalar/table/tuple, directly and through an opaque function so the "
        "run-time checks are reached) and positions from {-1,0,1,n-1,n,n+1,2^31,2^32,2^32+1,INT64_MAX,INT64_MIN,null}; after every step the deep "
        "dump of all containers is compared with the model (exact content when accepted, unchanged when rejected, index error required for "
        "out-of-range/null positions) and checked for uniformity. forall loops whose body tries to change the iterated table (16 mutators x 3 "
        "nestings x 4 tables), writes through the iterator (every argument class) and the tab/tup constructors are enumerated. Also: second variables with distinguishable elements as insert/concat arguments, element expressions whose value varies between evaluations, copies of tables of tuples.",
   note="trusted: the python model; int/decimal mixing and untyped-null stores may be accepted or rejected (manual silent) but an accepted one must "
        "store the converted / typed-null element; table equality is not asserted",
   design="4/C09"),
}

NOT_YET = "check not built yet in this round (see DESIGN.md section 4 for the planned runtime monitor)"

def main():
    repo_commits = subprocess.run(["git", "-C", "/repo", "log", "--format=%h %s"], capture_output=True, text=True).stdout.splitlines()
    hooks = [l.split()[0] for l in repo_commits if "verif hooks" in l]
    m = {
      "version": 1,
      "setup_cmd": "bin/build.sh asan >/dev/null",
      "hooks": {"guard": "BLOC_VERIF", "enable": "bin/build.sh appends -DBLOC_VERIF to CMAKE_C_FLAGS/CMAKE_CXX_FLAGS of the repository's own CMake build (per sanitizer flavor, cached by tree hash)",
                "baseline_off_cmd": "bin/baseline_off.sh", "source_commits": hooks, "add_only": True},
      "engines": [{"name": "vprobe", "path": "harness/vprobe.cpp", "serves_properties": sorted(CHECKS), "kind_free_text": "in-process driver of the instrumented libblocc (C++ API + C API), ASan+UBSan"},
                  {"name": "vthreads", "path": "harness/vthreads.cpp", "serves_properties": ["C14"], "kind_free_text": "clone/thread driver of libblocc, one scenario per process, built with ThreadSanitizer and with ASan+UBSan"},
                  {"name": "vapi", "path": "harness/vapi.c", "serves_properties": ["C15"], "kind_free_text": "pure-C executor of C-API call sequences (bloc_capi.h only), ASan+UBSan+LeakSanitizer"},
                  {"name": "runner", "path": "py/vlib.py", "serves_properties": sorted(CHECKS), "kind_free_text": "process pool, crash attribution, signatures, known findings, evidence"}],
      "checks": [], "not_applicable": [],
      "notes": "All checks are runtime monitors/sanitizer runs over executions of the real code; see DESIGN.md. Known findings: known_findings.json.",
    }
    for pid in ALL:
        if pid in CHECKS:
            c = CHECKS[pid]
            m["checks"].append({
              "property_id": pid, "quick_cmd": "./check %s --tier quick" % pid, "thorough_cmd": "./check %s --tier thorough" % pid,
              "evidence_file": "evidence/%s.json" % pid, "replay_cmd_template": "./check %s --replay {path}" % pid,
              "engine": {"C14": "vthreads", "C15": "vapi"}.get(pid, "vprobe"), "technique": c["technique"],
              "level_claimed": {"category": "exploration", "text": c["text"], "design_ref": c["design"]},
              "level_note": c["note"]})
        else:
            m["not_applicable"].append({"property_id": pid, "reason": NOT_YET})
    json.dump(m, open(os.path.join(VERIF, "MANIFEST.json"), "w"), indent=1)
    print("MANIFEST.json: %d checks, %d not_applicable" % (len(m["checks"]), len(m["not_applicable"])))

main()
