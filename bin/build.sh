#!/bin/bash
# Build /repo's *current working tree* (hooks on: -DBLOC_VERIF) for one sanitizer flavor,
# then the harness binaries of /verif/harness against it.  Cached by a content hash over
# every source file of the repository + the flag string + the harness sources.
# usage: build.sh <asan|tsan|fuzz|plain>     prints the build directory on stdout
set -euo pipefail
FLAVOR=${1:?flavor}
REPO=${VERIF_REPO:-/repo}
VERIF=$(cd "$(dirname "$0")/.." && pwd)
ROOT=${VERIF_BUILD_ROOT:-$VERIF/.build}
B=$ROOT/$FLAVOR
mkdir -p "$ROOT"
exec 9>"$ROOT/$FLAVOR.lock"
flock 9

CC=gcc; CXX=g++
case $FLAVOR in
  asan) SAN="-O1 -g -fno-omit-frame-pointer -fsanitize=address,undefined -fno-sanitize-recover=all";;
  tsan) SAN="-O1 -g -fno-omit-frame-pointer -fsanitize=thread";;
  plain) SAN="-O1 -g";;
  fuzz) CC=clang-14; CXX=clang++-14
        SAN="-O1 -g -fno-omit-frame-pointer -fsanitize=fuzzer-no-link,address,undefined -fno-sanitize=object-size,vptr,function -fno-sanitize-recover=all";;
  *) echo "unknown flavor $FLAVOR" >&2; exit 2;;
esac
FLAGS="$SAN -DBLOC_VERIF"

srchash() {
  [ -d "$1" ] || { echo none; return; }
  ( cd "$1" && find . \( -path ./_build -o -path ./.git \) -prune -o -type f -print0 | LC_ALL=C sort -z | xargs -0 sha1sum ) | sha1sum | cut -d' ' -f1
}
KEY="$(srchash "$REPO") $(srchash "$VERIF/harness") $(srchash "$VERIF/vmod") $CC $FLAGS v3"
if [ -f "$B/.key" ] && [ "$(cat "$B/.key")" = "$KEY" ] && [ -f "$B/.ok" ]; then
  echo "$B"; exit 0
fi
rm -f "$B/.ok"
LOG=$ROOT/$FLAVOR.log
{
  # keep the object cache when only sources changed (ninja rebuilds what differs); wipe on flag change
  if [ -f "$B/.flags" ] && [ "$(cat "$B/.flags")" != "$CC $FLAGS $REPO" ]; then rm -rf "$B"; fi
  mkdir -p "$B"
  echo "$CC $FLAGS $REPO" > "$B/.flags"
  CC=$CC CXX=$CXX cmake -G Ninja -S "$REPO" -B "$B" -DBUILD_TESTING=OFF -DCMAKE_BUILD_TYPE=Debug \
     -DCMAKE_C_FLAGS_DEBUG= -DCMAKE_CXX_FLAGS_DEBUG= \
     -DCMAKE_C_FLAGS="$FLAGS" -DCMAKE_CXX_FLAGS="$FLAGS"
  if [ "$FLAVOR" = tsan ] || [ "$FLAVOR" = fuzz ]; then
    cmake --build "$B" -j16 --target blocc
  else
    cmake --build "$B" -j16 --target blocc bloc bloc_csv bloc_file bloc_sqlite3 bloc_utf8
  fi
  # one directory holding libblocc + the module libraries (never sys/plplot/db clients)
  rm -rf "$B/modlib"; mkdir -p "$B/modlib" "$B/libonly" "$B/harness"
  for f in "$B"/blocc/libblocc.so*; do ln -sf "$f" "$B/modlib/"; ln -sf "$f" "$B/libonly/"; done
  for m in csv file sqlite3 utf8; do
    for f in "$B"/modules/$m/libbloc_$m.so*; do [ -e "$f" ] && ln -sf "$f" "$B/modlib/"; done
  done
  INC="-I$REPO -I$REPO/blocc -I$B/blocc/include -I$B/blocc"
  LNK="-L$B/blocc -lblocc -Wl,-rpath,$B/blocc -ldl -lpthread"
  HF="$SAN -DBLOC_VERIF -std=c++11 -Wall -Wno-unused-function"
  if [ "$FLAVOR" = fuzz ]; then
    [ -f "$VERIF/harness/fuzz_target.cpp" ] && $CXX ${HF/fuzzer-no-link/fuzzer} $INC "$VERIF/harness/fuzz_target.cpp" -o "$B/harness/fuzz_target" $LNK
  else
    pids=()
    for src in "$VERIF"/harness/*.cpp; do
      n=$(basename "$src" .cpp)
      [ "$n" = fuzz_target ] && continue
      if [ "$FLAVOR" = tsan ] && [ "$n" != vthreads ]; then continue; fi
      $CXX $HF $INC "$src" -o "$B/harness/$n" $LNK & pids+=($!)
    done
    for src in "$VERIF"/harness/*.c; do
      [ -e "$src" ] || continue
      n=$(basename "$src" .c)
      [ "$FLAVOR" = tsan ] && continue
      $CC $SAN -DBLOC_VERIF -Wall $INC "$src" -o "$B/harness/$n" $LNK -lstdc++ & pids+=($!)
    done
    if [ "$FLAVOR" != tsan ]; then
      for src in "$VERIF"/vmod/*.cpp; do
        [ -e "$src" ] || continue
        n=$(basename "$src" .cpp)
        $CXX $HF -fPIC -shared -DLIBSOVERSION='"2.9"' $INC "$src" -o "$B/modlib/libbloc_$n.so.2.9" -L$B/blocc -lblocc & pids+=($!)
      done
    fi
    for p in "${pids[@]}"; do wait $p; done
  fi
} >"$LOG" 2>&1 || { echo "BUILD FAILED ($FLAVOR), see $LOG" >&2; tail -40 "$LOG" >&2; exit 2; }
echo "$KEY" > "$B/.key"
touch "$B/.ok"
echo "$B"
