#!/bin/bash
# usage: harvest.sh <Cxx> <mutants_dir>   (mutants_dir holds m1, m2, ... written by a sub-agent in its scratch worktree)
# Confirms every m<i> (bin/confirm_mutants.sh), then runs the quick tier of the property's check against each confirmed
# change (bin/try_mutant.sh).  Keeps nothing by itself: bin/keep_mutant.py does that after the result has been read.
P=$1; D=$2
cd "$(dirname "$0")/.."
bin/confirm_mutants.sh $D/m* 2>&1 | tee /tmp/harvest_$P.conf
for m in $D/m*; do
  n=$(basename $(dirname $m))/$(basename $m)
  grep -q "^$n: confirmed=YES" /tmp/harvest_$P.conf || { echo "== $m not confirmed, skipped"; continue; }
  echo "== $m"
  LINES_MAX=8 bin/try_mutant.sh $m/patch.diff $P
done
