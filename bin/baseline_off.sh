#!/bin/bash
# Runs the repository's own test suite (121 tests) on /repo's working tree with the BLOC_VERIF
# guard OFF, in a scratch build directory that is removed afterwards.
set -uo pipefail
REPO=${VERIF_REPO:-/repo}
D=$(mktemp -d /tmp/bloc_baseline_XXXXXX)
trap 'rm -rf "$D"' EXIT
cmake -G Ninja -S "$REPO" -B "$D" -DBUILD_TESTING=ON >"$D/configure.log" 2>&1 || { cat "$D/configure.log"; exit 2; }
cmake --build "$D" -j16 >"$D/build.log" 2>&1 || { tail -50 "$D/build.log"; exit 2; }
ctest --test-dir "$D" -j8 --timeout 900 2>&1 | tail -15
exit ${PIPESTATUS[0]}
