#!/bin/bash
# usage: try_mutant.sh <patch.diff> <Cxx> [Cyy...] : applies the patch to /repo, runs the quick checks, reverts.
P=$1; shift
export VERIF_OUT=/verif/scratch/mutant_out; mkdir -p $VERIF_OUT   # keep the committed evidence/ for runs on the unchanged tree
cd /repo && git status --short | grep -v '^??' && { echo "repo dirty"; exit 2; }
git -C /repo apply "$P" || { echo "patch does not apply"; exit 2; }
for c in "$@"; do
  ( cd /verif && timeout 3000 ./check $c --tier ${TIER:-quick} 2>&1 | grep -E "VIOLATION|signature|what:|tier=|KNOWN|HARNESS" | cut -c1-260 | head -${LINES_MAX:-14}; echo "exit=${PIPESTATUS[0]}" )
done
git -C /repo checkout -- . 
